fn main() {
    // export the binary's own `getrandom` so that std's weak lookup finds it (HashMap seeds)
    println!("cargo:rustc-link-arg-bins=-rdynamic");
    println!("cargo:rerun-if-changed=build.rs");
}
