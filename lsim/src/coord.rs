//! Coordinator / worker processes, replay, minimisation, evidence.

use crate::env::Violation;
use crate::plan::*;
use crate::props;
use crate::{cli_arg, cli_u64};
use serde::{Deserialize, Serialize};
use std::collections::{BTreeMap, BTreeSet};
use std::io::{BufRead, Write};
use std::time::Instant;

/// The verification tree the process works in: the directory `./check` was started from (it
/// changes into its own directory first), so that a snapshot copy writes its evidence and replay
/// files into itself.
pub fn verif_dir() -> String {
    static DIR: std::sync::OnceLock<String> = std::sync::OnceLock::new();
    DIR.get_or_init(|| {
        let cwd = std::env::current_dir().map(|p| p.to_string_lossy().into_owned()).unwrap_or_else(|_| "/verif".into());
        if std::path::Path::new(&format!("{cwd}/known_findings.json")).exists() {
            cwd
        } else {
            "/verif".into()
        }
    })
    .clone()
}

#[derive(Clone, Debug, Serialize, Deserialize)]
pub struct Found {
    pub index: u64,
    pub plan: Plan,
    pub violations: Vec<Violation>,
    pub event_hash: u64,
}

#[derive(Clone, Debug, Default, Serialize, Deserialize)]
pub struct WorkerSummary {
    pub runs: u64,
    pub executions: u64,
    pub steps: u64,
    pub sched_points: u64,
    pub ctx_switches: u64,
    pub timers_fired: u64,
    pub idle_firings: u64,
    pub eager_firings: u64,
    pub sim_ns: u64,
    pub fs_effects: u64,
    pub wall_us: u64,
    pub nontrivial_runs: u64,
    pub signatures: Vec<u64>,
    pub sched_hashes: Vec<u64>,
    pub counters: BTreeMap<String, u64>,
    pub sched_kinds: BTreeMap<String, u64>,
    pub samples: Vec<serde_json::Value>,
    pub found: Vec<Found>,
    pub stopped_early: bool,
    /// position (in units of this worker's stride) up to which this summary accounts for
    #[serde(default)]
    pub next_k: u64,
}

fn sched_kind_name(k: u8) -> &'static str {
    ["random", "sticky", "pct"][k as usize % 3]
}

fn sample_of(plan: &Plan, r: &RunResult) -> serde_json::Value {
    serde_json::json!({
        "run_seed": plan.seed,
        "profile": plan.profile,
        "scheduler": {"kind": sched_kind_name(plan.sched.kind), "depth": plan.sched.depth, "timer_eager_permille": plan.sched.timer_eager_permille},
        "options": plan.opts,
        "ops": plan.ops.iter().map(crate::exec::op_name).collect::<Vec<_>>(),
        "extras": plan.extras,
        "knobs": plan.knobs,
        "outcome": {"end": r.stats.end, "steps": r.stats.steps, "context_switches": r.stats.ctx_switches, "fs_effects": r.stats.fs_effects, "simulated_s": r.stats.sim_ns as f64 / 1e9, "executions": r.stats.executions, "violations": r.violations.len()},
    })
}

pub fn worker_main(args: &[String]) {
    let prop = cli_arg(args, "--prop").expect("--prop").to_string();
    let seed = cli_u64(args, "--seed", 1);
    let start = cli_u64(args, "--start", 0);
    let stride = cli_u64(args, "--stride", 1);
    let count = cli_u64(args, "--count", 1);
    let max_wall_s = cli_u64(args, "--max-wall-s", 3600);
    let skip: BTreeSet<u64> = cli_arg(args, "--skip").map(|s| s.split(',').filter_map(|x| x.parse().ok()).collect()).unwrap_or_default();
    let t0 = Instant::now();
    let mut s = WorkerSummary::default();
    let mut sigs: BTreeSet<u64> = BTreeSet::new();
    let mut shs: BTreeSet<u64> = BTreeSet::new();
    let mut k = cli_u64(args, "--from-k", 0);
    let mut since_partial = 0;
    while k < count {
        if t0.elapsed().as_secs() >= max_wall_s {
            s.stopped_early = true;
            break;
        }
        let index = start + k * stride;
        k += 1;
        if skip.contains(&index) {
            continue;
        }
        {
            // lets the coordinator attribute a process abort to the run that caused it
            let out = std::io::stdout();
            let mut o = out.lock();
            writeln!(o, "LSIM-RUN {index}").unwrap();
            o.flush().unwrap();
        }
        let plan = props::gen_plan(&prop, props::mix_seed(seed, &prop, index));
        let r = props::run_plan(&plan);
        s.runs += 1;
        s.executions += r.stats.executions;
        s.steps += r.stats.steps;
        s.sched_points += r.stats.sched_points;
        s.ctx_switches += r.stats.ctx_switches;
        s.timers_fired += r.stats.timers_fired;
        s.idle_firings += r.stats.idle_firings;
        s.eager_firings += r.stats.eager_firings;
        s.sim_ns += r.stats.sim_ns;
        s.fs_effects += r.stats.fs_effects;
        s.wall_us += r.stats.wall_us;
        *s.sched_kinds.entry(["random", "sticky", "pct"][plan.sched.kind as usize % 3].to_string()).or_insert(0) += 1;
        for (k2, v) in &r.stats.counters {
            *s.counters.entry(k2.clone()).or_insert(0) += *v;
        }
        if r.stats.nontrivial {
            s.nontrivial_runs += 1;
            sigs.insert(r.stats.signature);
        }
        shs.insert(r.stats.sched_hash);
        if s.samples.len() < 2 && r.stats.nontrivial {
            s.samples.push(sample_of(&plan, &r));
        }
        if !r.violations.is_empty() && s.found.len() < 40 {
            s.found.push(Found { index, plan, violations: r.violations.clone(), event_hash: r.stats.event_hash });
        }
        since_partial += 1;
        if since_partial >= 200 {
            // cumulative checkpoint: if a later run takes the process down, the coordinator
            // continues from here
            since_partial = 0;
            s.signatures = sigs.iter().cloned().collect();
            s.sched_hashes = shs.iter().cloned().collect();
            s.next_k = k;
            let out = std::io::stdout();
            let mut o = out.lock();
            writeln!(o, "LSIM-SUMMARY {}", serde_json::to_string(&s).unwrap()).unwrap();
            o.flush().unwrap();
        }
    }
    s.signatures = sigs.into_iter().collect();
    s.sched_hashes = shs.into_iter().collect();
    s.next_k = count;
    let out = std::io::stdout();
    let mut o = out.lock();
    writeln!(o, "LSIM-SUMMARY {}", serde_json::to_string(&s).unwrap()).unwrap();
}

// ---------------------------------------------------------------------------------------------

#[derive(Clone, Debug, Serialize, Deserialize)]
pub struct ReplayFile {
    pub property: String,
    pub class: String,
    pub detail: String,
    pub found_by: serde_json::Value,
    pub minimised: bool,
    pub event_hash: u64,
    pub plan: Plan,
}

#[derive(Clone, Debug, Default, Deserialize)]
struct KnownFindings {
    #[serde(default)]
    findings: Vec<KnownFinding>,
}
#[derive(Clone, Debug, Deserialize)]
struct KnownFinding {
    property: String,
    /// violation class; a trailing '*' matches any suffix
    class: String,
    /// consequences of the same defect that show up under other classes (hangs, poisoned locks ...)
    #[serde(default)]
    also: Vec<String>,
    what: String,
}

fn load_known() -> KnownFindings {
    let p = format!("{}/known_findings.json", verif_dir());
    match std::fs::read_to_string(&p) {
        Ok(s) => serde_json::from_str(&s).unwrap_or_else(|e| {
            eprintln!("lsim: cannot parse {p}: {e}");
            std::process::exit(2)
        }),
        Err(_) => KnownFindings::default(),
    }
}

fn known_match<'a>(k: &'a KnownFindings, prop: &str, class: &str) -> Option<&'a KnownFinding> {
    let m = |pat: &str| pat == class || (pat.ends_with('*') && class.starts_with(&pat[..pat.len() - 1]));
    // a finding listed by the panic that constitutes it (`panic:<file>:<stem>`) is also recognised
    // through its consequences: the hang it leads to, a caller tripping over the poisoned lock
    let derived = |f: &KnownFinding| match f.class.strip_prefix("panic:") {
        Some(rest) => {
            let rest = rest.trim_end_matches('*');
            class.starts_with(&format!("hang_after_panic:{rest}")) || class.starts_with(&format!("poisoned_after_panic:{rest}"))
        }
        None => false,
    };
    k.findings.iter().find(|f| (f.property == prop || f.property == "*") && (m(&f.class) || f.also.iter().any(|a| m(a)) || derived(f)))
}

/// glibc malloc tuning for worker processes: one arena, never trim, never mmap single allocations.
/// Every run executes on a fresh OS thread; without this each run pays for arena growth/trim page
/// faults, which serialise badly across 16 processes in this VM (measured 5x).
pub fn malloc_env() -> Vec<(&'static str, &'static str)> {
    // (allocations of 64 MiB and more — only a length field read from damaged data asks for those — are mmapped and go back to the OS when freed)
    vec![("MALLOC_ARENA_MAX", "1"), ("MALLOC_TRIM_THRESHOLD_", "2000000000"), ("MALLOC_TOP_PAD_", "268435456"), ("MALLOC_MMAP_THRESHOLD_", "67108864")]
}

pub struct TierSpec {
    pub runs: u64,
    pub max_wall_s: u64,
}

pub fn tier_spec(prop: &str, tier: &str) -> TierSpec {
    let quick = tier != "thorough";
    let (q, t): (u64, u64) = match prop {
        "C01" => (24_000, 400_000),
        "C07" => (16_000, 250_000),
        "C08" => (16_000, 250_000),
        "C13" => (16_000, 250_000),
        "C15" => (12_000, 200_000),
        "C18" => (6_000, 100_000),
        "C02" => (10_000, 160_000),
        "C03" => (12_000, 200_000),
        "C04" => (12_000, 200_000),
        "C05" => (12_000, 200_000),
        "C06" => (12_000, 200_000),
        "C09" => (1_000, 16_000),
        "C10" => (16_000, 250_000),
        "C11" => (8_000, 120_000),
        "C12" => (8_000, 120_000),
        "C17" => (10_000, 200_000),
        "C14" => (480, 8_000),
        _ => (8_000, 120_000),
    };
    if quick {
        TierSpec { runs: q, max_wall_s: 240 }
    } else {
        TierSpec { runs: t, max_wall_s: 1500 }
    }
}

fn level_of(prop: &str) -> &'static str {
    match prop {
        "C09" | "C14" => "fault_enumeration",
        _ => "exploration",
    }
}

pub fn check_main(args: &[String]) -> i32 {
    let prop = cli_arg(args, "--prop").expect("--prop").to_string();
    let tier = cli_arg(args, "--tier").unwrap_or("quick").to_string();
    let seed = cli_u64(args, "--seed", std::env::var("VERIF_SEED").ok().and_then(|s| s.parse().ok()).unwrap_or(20260923));
    let jobs = cli_u64(args, "--jobs", 16).max(1);
    let spec = tier_spec(&prop, &tier);
    let runs = cli_u64(args, "--runs", spec.runs);
    let max_wall_s = cli_u64(args, "--max-wall-s", spec.max_wall_s);
    let t0 = Instant::now();
    println!("lsim check property={prop} tier={tier} VERIF_SEED={seed} runs={runs} jobs={jobs}");

    let exe = std::env::current_exe().expect("current_exe");
    let mut total = WorkerSummary::default();
    let mut sigs: BTreeSet<u64> = BTreeSet::new();
    let mut shs: BTreeSet<u64> = BTreeSet::new();
    let mut harness_errors: Vec<String> = Vec::new();
    let mut aborts: Vec<(u64, String)> = Vec::new();
    // (worker number, indices to skip because they abort the process)
    let mut pending: Vec<(u64, Vec<u64>, u64)> = (0..jobs).map(|w| (w, Vec::new(), 0)).collect();
    let mut rounds = 0;
    while !pending.is_empty() && rounds < 400 {
        rounds += 1;
        let mut children = Vec::new();
        for (w, skip, from_k) in pending.drain(..) {
            let count = (runs + jobs - 1 - w) / jobs;
            if count == 0 || from_k >= count {
                continue;
            }
            let mut cmd = std::process::Command::new(&exe);
            // (a worker restarted after an abort gets what is left of the budget, not a fresh one)
            let remaining = max_wall_s.saturating_sub(t0.elapsed().as_secs()).max(5);
            cmd.args(["worker", "--prop", &prop, "--seed", &seed.to_string(), "--start", &w.to_string(), "--stride", &jobs.to_string(), "--count", &count.to_string(), "--max-wall-s", &remaining.to_string()]);
            cmd.args(["--from-k", &from_k.to_string()]);
            if !skip.is_empty() {
                cmd.args(["--skip", &skip.iter().map(|x| x.to_string()).collect::<Vec<_>>().join(",")]);
            }
            let child = cmd.envs(malloc_env()).env("LSIM_TIER", &tier).stdout(std::process::Stdio::piped()).stderr(std::process::Stdio::piped()).spawn().expect("spawn worker");
            children.push((w, skip, from_k, child));
        }
        for (w, skip, from_k, child) in children {
            let outp = child.wait_with_output().expect("wait worker");
            let mut last_run: Option<u64> = None;
            let mut last_summary: Option<WorkerSummary> = None;
            for raw in outp.stdout.split(|b| *b == b'\n') {
                // (lines may carry non-UTF-8 bytes: garbage strings produced by the database)
                let line = String::from_utf8_lossy(raw);
                if let Some(i) = line.strip_prefix("LSIM-RUN ") {
                    last_run = i.trim().parse().ok();
                } else if let Some(js) = line.strip_prefix("LSIM-SUMMARY ") {
                    match serde_json::from_str::<WorkerSummary>(js) {
                        Ok(s) => last_summary = Some(s),
                        Err(e) => harness_errors.push(format!("worker {w}: bad summary: {e}")),
                    }
                }
            }
            let count = (runs + jobs - 1 - w) / jobs;
            let reached = last_summary.as_ref().map(|s| s.next_k).unwrap_or(from_k);
            let got = outp.status.success() && reached >= count;
            if let Some(s) = last_summary {
                total.runs += s.runs;
                total.executions += s.executions;
                total.steps += s.steps;
                total.sched_points += s.sched_points;
                total.ctx_switches += s.ctx_switches;
                total.timers_fired += s.timers_fired;
                total.idle_firings += s.idle_firings;
                total.eager_firings += s.eager_firings;
                total.sim_ns += s.sim_ns;
                total.fs_effects += s.fs_effects;
                total.wall_us += s.wall_us;
                total.nontrivial_runs += s.nontrivial_runs;
                total.stopped_early |= s.stopped_early;
                sigs.extend(s.signatures);
                shs.extend(s.sched_hashes);
                for (k, v) in s.counters {
                    *total.counters.entry(k).or_insert(0) += v;
                }
                for (k, v) in s.sched_kinds {
                    *total.sched_kinds.entry(k).or_insert(0) += v;
                }
                if total.samples.len() < 3 {
                    total.samples.extend(s.samples.into_iter().take(1));
                }
                total.found.extend(s.found);
            }
            if !got {
                let err = String::from_utf8_lossy(&outp.stderr);
                let tail: String = err.lines().rev().take(12).collect::<Vec<_>>().into_iter().rev().collect::<Vec<_>>().join("\n");
                match last_run {
                    Some(i) if !skip.contains(&i) => {
                        // the database took the whole process down (abort / segfault) in run i
                        if std::env::var_os("LSIM_DEBUG_COORD").is_some() {
                            eprintln!("coord: round {rounds} worker {w} died at index {i} (from_k {from_k}, reached {reached}, skips {})", skip.len());
                        }
                        aborts.push((i, format!("worker process died (status {:?}) while executing run index {i}; stderr tail:\n{tail}", outp.status)));
                        let mut skip2 = skip.clone();
                        skip2.push(i);
                        pending.push((w, skip2, reached));
                    }
                    _ => harness_errors.push(format!("worker {w} failed (status {:?}):\n{}", outp.status.code(), tail)),
                }
            }
        }
    }
    if !pending.is_empty() {
        harness_errors.push("workers kept dying; giving up".into());
    }
    for (i, detail) in aborts {
        let site = detail.lines().find_map(|l| l.find("panicked at ").map(|p| l[p + 12..].to_string())).map(|l| crate::env::file_of(l.trim_end_matches(':'))).unwrap_or_else(|| "unknown".into());
        let plan = props::gen_plan(&prop, props::mix_seed(seed, &prop, i));
        total.found.push(Found { index: i, plan, violations: vec![Violation { class: format!("process_abort:{site}"), detail }], event_hash: 0 });
    }
    if !harness_errors.is_empty() {
        for e in &harness_errors {
            eprintln!("HARNESS-ERROR {e}");
        }
        return 2;
    }

    // ---- triage what was found
    total.found.sort_by_key(|f| f.index);
    let known = load_known();
    let mut by_class: BTreeMap<String, Found> = BTreeMap::new();
    let mut class_counts: BTreeMap<String, u64> = BTreeMap::new();
    for f in &total.found {
        for v in &f.violations {
            *class_counts.entry(v.class.clone()).or_insert(0) += 1;
            by_class.entry(v.class.clone()).or_insert_with(|| {
                let mut g = f.clone();
                g.violations = vec![v.clone()];
                g
            });
        }
    }
    let mut known_hit: BTreeMap<String, u64> = BTreeMap::new();
    let mut new_violations: Vec<(String, Found)> = Vec::new();
    let mut harness_classes = Vec::new();
    for (class, f) in by_class {
        if class.starts_with("harness_error") {
            harness_classes.push((class, f));
        } else if let Some(k) = known_match(&known, &prop, &class) {
            *known_hit.entry(k.what.clone()).or_insert(0) += class_counts[&class];
        } else {
            new_violations.push((class, f));
        }
    }
    if !harness_classes.is_empty() {
        for (c, f) in &harness_classes {
            eprintln!("HARNESS-ERROR run index {} : {} :: {}", f.index, c, f.violations[0].detail);
        }
        return 2;
    }
    for (what, n) in &known_hit {
        println!("KNOWN-FINDING: property={prop} {what} (seen in {n} run(s))");
    }
    let mut exit = 0;
    let mut reported = 0;
    if !new_violations.is_empty() {
        crate::warm_up();
    }
    // (classes that killed a worker process last: they cannot be minimised, and whether they replay
    // can depend on what else the process had executed)
    new_violations.sort_by_key(|(c, _)| c.starts_with("process_abort"));
    let mut unreproduced: Vec<String> = Vec::new();
    for (class, f) in new_violations.iter().take(5) {
        let is_abort = class.starts_with("process_abort");
        // (a plan that kills the process cannot be minimised in-process)
        let (plan, minimised) = if is_abort { (f.plan.clone(), false) } else { minimise(&f.plan, class, 45) };
        let r = if is_abort { RunResult { violations: vec![], stats: RunStats::default() } } else { props::run_plan(&plan) };
        let detail = r.violations.iter().find(|v| &v.class == class).map(|v| v.detail.clone()).unwrap_or_else(|| f.violations[0].detail.clone());
        let rf = ReplayFile {
            property: prop.clone(),
            class: class.clone(),
            detail: detail.clone(),
            found_by: serde_json::json!({"VERIF_SEED": seed, "run_index": f.index, "tier": tier}),
            minimised,
            event_hash: r.stats.event_hash,
            plan,
        };
        let mut h = 0xcbf29ce484222325u64;
        for b in class.bytes() {
            h ^= b as u64;
            h = h.wrapping_mul(0x100000001b3);
        }
        let path = format!("{}/replays/{prop}-{:08x}.json", verif_dir(), (h ^ (h >> 32)) as u32);
        std::fs::create_dir_all(format!("{}/replays", verif_dir())).ok();
        std::fs::write(&path, serde_json::to_string_pretty(&rf).unwrap()).expect("write replay file");
        // the replay must reproduce in a fresh process, otherwise nothing is claimed
        let st = std::process::Command::new(&exe).args(["replay", &path, "--quiet"]).status().expect("spawn replay");
        if st.code() == Some(1) || (is_abort && st.code().is_none()) {
            println!("violation class={class} seen in {} run(s); first at run index {}", class_counts[class], f.index);
            println!("  {detail}");
            println!("VIOLATION property={prop} replay={path}");
            exit = 1;
            reported += 1;
        } else {
            unreproduced.push(format!("violation class={class} (run index {}) did not reproduce from {path} in a fresh process (replay exit {:?})", f.index, st.code()));
            reported += 1;
        }
    }
    if !unreproduced.is_empty() {
        if exit == 1 {
            // something reproducible was reported; what did not reproduce is mentioned, not claimed
            for u in &unreproduced {
                println!("NOTE: {u}");
            }
        } else {
            for u in &unreproduced {
                eprintln!("HARNESS-ERROR {u}");
            }
            return 2;
        }
    }
    if new_violations.len() > reported {
        println!("({} further violation class(es) not minimised: {:?})", new_violations.len() - reported, new_violations.iter().skip(reported).map(|x| x.0.clone()).collect::<Vec<_>>());
    }

    // ---- evidence
    let wall_s = t0.elapsed().as_secs_f64();
    let holes: Vec<String> = expected_probes(&prop).iter().filter(|p| total.counters.get(**p).copied().unwrap_or(0) == 0).map(|s| s.to_string()).collect();
    let ev = serde_json::json!({
        "property_id": prop,
        "tier": tier,
        "seed": seed,
        "level": level_of(&prop),
        "wall_s": wall_s,
        "violations": new_violations.len(),
        "coverage": {
            "evaluations": total.runs,
            "distinct_nontrivial": sigs.len(),
            "rule": rule_text(&prop),
            "samples": total.samples,
            "exhaustive": false,
            "simulated_executions": total.executions,
            "runs_per_hour": (total.runs as f64 / wall_s * 3600.0) as u64,
            "seeds": format!("VERIF_SEED={seed}, run seeds mix(VERIF_SEED, property, 0..{})", total.runs),
            "stopped_early_by_wall_clock_cap": total.stopped_early,
            "simulated_seconds_covered": total.sim_ns as f64 / 1e9,
            "scheduler_steps": total.steps,
            "scheduling_points": total.sched_points,
            "context_switches": total.ctx_switches,
            "distinct_schedules": shs.len(),
            "distinct_schedules_measure": "hash of the sequence (thread chosen, decision number) at every context switch of a run",
            "scheduler_mix": total.sched_kinds,
            "faults_injected": {
                "timer_firings": total.timers_fired,
                "timer_fired_while_other_threads_runnable": total.eager_firings,
                "clock_advanced_because_all_threads_blocked": total.idle_firings,
                "fs_effects_with_preemption_point": total.fs_effects,
                "by_kind": total.counters.iter().filter(|(k, _)| k.starts_with("fault:")).map(|(k, v)| (k.clone(), *v)).collect::<BTreeMap<_, _>>(),
            },
            "counters": total.counters,
            "coverage_holes": holes,
            "known_findings_hit": known_hit,
            "violation_classes_seen": class_counts,
            "components": components(&prop),
        },
        "assumptions": assumptions(&prop),
    });
    // (triage sweeps with other seeds or run counts pass --no-evidence)
    if !args.iter().any(|a| a == "--no-evidence") {
        std::fs::create_dir_all(format!("{}/evidence", verif_dir())).ok();
        std::fs::write(format!("{}/evidence/{prop}.json", verif_dir()), serde_json::to_string_pretty(&ev).unwrap()).expect("write evidence");
    }
    println!(
        "{} runs ({} executions, {} distinct non-trivial, {} distinct schedules) in {:.1}s; violations: {}",
        total.runs, total.executions, sigs.len(), shs.len(), wall_s, new_violations.len()
    );
    exit
}

fn expected_probes(prop: &str) -> Vec<&'static str> {
    let mut v = vec!["open", "ingest"];
    match prop {
        "C01" => v.extend(["flush", "restart", "repr:I64", "repr:Dense", "repr:String", "repr:Mixed", "repr:Empty", "repr:Sparse", "repr:SparseI64", "sp:compact:start", "sp:load:before_read"]),
        "C07" => v.extend(["flush", "evict", "restart", "sp:compact:start", "sp:load:before_read", "timers"]),
        "C08" => v.extend(["flush", "restart", "wal_files_checked"]),
        "C13" => v.extend(["flush", "catalogue_checked", "column_searches", "sp:compact:start"]),
        "C15" => v.extend(["columns_read", "sp:load:before_read", "restart"]),
        "C18" => v.extend(["garbage_checked", "sp:compact:start"]),
        "C17" => v.extend(["http_query:Query", "http_query:QueryCols", "http_query:MultiJson", "http_query:MultiBin", "http_query:MultiBinXor", "http_answers_equal_embedded", "http_failing_query_mapped", "prefix_queries_checked", "http_columns", "http_multi_requests"]),
        _ => {}
    }
    v
}

fn rule_text(prop: &str) -> String {
    let common = "One evaluation = one seeded plan (options, scheduler strategy+seed, explicit operation list with explicit data) executed once by the real locustdb crate under the simulator. A run is non-trivial if it performed at least one maintenance step (flush, compaction, eviction, restart) or injected fault; distinct = distinct (layout signature over the simulated directory after every op, schedule hash) pairs.";
    format!("{common} Property profile: {prop}.")
}

fn components(_prop: &str) -> serde_json::Value {
    serde_json::json!({
        "real": ["locustdb crate built from /repo working tree (parser, planner, operators, mem_store, scheduler, disk_store incl. FileBlobWriter/VersionedChecksummedBlobWriter/Storage/MetaStore/recovery)", "locustdb-serialization", "locustdb-compression-utils", "pco", "lz4_flex", "capnp", "sqlparser", "futures oneshot"],
        "simulated": ["threads, Mutex, RwLock, Condvar, mpsc, atomics (locustdb-simrt on shuttle-engine coroutines)", "threadpool::ThreadPool", "std_semaphore::Semaphore", "clock / sleep / wait_timeout (discrete-event timer queue)", "file system below FileBlobWriter (SimFs)", "OS entropy (HashMap seeds)", "futures::executor::block_on"],
        "stubbed": ["TCP / HTTP codec", "GCS and Azure blob writers", "prometheus metrics table (metrics_table_name=None)", "python bindings"],
    })
}

fn assumptions(_prop: &str) -> Vec<String> {
    vec![
        "preemption only at synchronisation operations, file-system calls and named sync points; atomics sequentially consistent; data races on plain memory are invisible".into(),
        "rename/unlink are durable once executed (directory fsync is not modelled; FileBlobWriter never issues one)".into(),
        "runtime I/O errors (EIO/ENOSPC) are not injected: every call site unwraps and no property states what should happen then".into(),
        "model adopts engine conventions fixed by the pinned test suite (documented in DESIGN.md section 4)".into(),
    ]
}

// ---------------------------------------------------------------------------------------------
// minimisation: delta debugging over the explicit plan, accepting a candidate when the same
// violation class persists (trying a few scheduler seeds per candidate, since removing an op
// shifts the schedule)
// ---------------------------------------------------------------------------------------------

fn reproduces(plan: &Plan, class: &str) -> Option<Plan> {
    for k in 0..3u64 {
        let mut p = plan.clone();
        if k > 0 {
            p.sched.seed = plan.sched.seed.wrapping_add(k.wrapping_mul(0x9E3779B97F4A7C15));
        }
        let r = props::run_plan(&p);
        if r.violations.iter().any(|v| v.class == class) {
            return Some(p);
        }
    }
    None
}

pub fn minimise(plan: &Plan, class: &str, budget_s: u64) -> (Plan, bool) {
    let t0 = Instant::now();
    let mut best = plan.clone();
    let mut changed = false;
    // 1. drop ops, from the end
    let mut progress = true;
    while progress && t0.elapsed().as_secs() < budget_s {
        progress = false;
        let mut i = best.ops.len();
        while i > 0 && t0.elapsed().as_secs() < budget_s {
            i -= 1;
            if best.ops.len() <= 1 {
                break;
            }
            let mut cand = best.clone();
            cand.ops.remove(i);
            if let Some(p) = reproduces(&cand, class) {
                best = p;
                progress = true;
                changed = true;
            }
        }
    }
    // 2. shrink requests: drop tables / columns / rows
    let mut i = 0;
    while i < best.ops.len() && t0.elapsed().as_secs() < budget_s {
        if let Op::Ingest(req) = &best.ops[i] {
            let req = req.clone();
            // fewer tables
            for t in (0..req.tables.len()).rev() {
                if req.tables.len() <= 1 {
                    break;
                }
                if let Op::Ingest(cur) = &best.ops[i] {
                    if t >= cur.tables.len() || cur.tables.len() <= 1 {
                        continue;
                    }
                    let mut cand = best.clone();
                    if let Op::Ingest(r) = &mut cand.ops[i] {
                        r.tables.remove(t);
                    }
                    if let Some(p) = reproduces(&cand, class) {
                        best = p;
                        changed = true;
                    }
                }
            }
            // fewer columns
            let ntab = if let Op::Ingest(cur) = &best.ops[i] { cur.tables.len() } else { 0 };
            for t in 0..ntab {
                let ncol = if let Op::Ingest(cur) = &best.ops[i] { cur.tables[t].cols.len() } else { 0 };
                for c in (0..ncol).rev() {
                    let mut cand = best.clone();
                    if let Op::Ingest(r) = &mut cand.ops[i] {
                        if r.tables[t].cols.len() <= 1 {
                            continue;
                        }
                        r.tables[t].cols.remove(c);
                        if !r.tables[t].cols.iter().any(|c| c.cells.iter().any(|x| !x.is_null())) {
                            continue;
                        }
                    }
                    if let Some(p) = reproduces(&cand, class) {
                        best = p;
                        changed = true;
                    }
                }
                // halve rows
                loop {
                    let rows = if let Op::Ingest(cur) = &best.ops[i] { cur.tables[t].rows } else { 0 };
                    if rows <= 1 || t0.elapsed().as_secs() >= budget_s {
                        break;
                    }
                    let keep = rows / 2;
                    let mut cand = best.clone();
                    if let Op::Ingest(r) = &mut cand.ops[i] {
                        r.tables[t].rows = keep;
                        for c in r.tables[t].cols.iter_mut() {
                            c.cells.truncate(keep);
                        }
                        if !r.tables[t].cols.iter().any(|c| c.cells.iter().any(|x| !x.is_null())) {
                            break;
                        }
                    }
                    match reproduces(&cand, class) {
                        Some(p) => {
                            best = p;
                            changed = true;
                        }
                        None => break,
                    }
                }
            }
        }
        i += 1;
    }
    // 3. options -> defaults, one knob at a time; scheduler -> plain random without eager timers
    let d = crate::env::OptsSpec::defaults();
    let knobs: Vec<Box<dyn Fn(&mut Plan)>> = vec![
        Box::new(move |p| p.opts.threads = 2),
        Box::new(move |p| p.opts.read_threads = 2),
        Box::new(move |p| p.opts.io_threads = 1),
        Box::new(move |p| p.opts.wal_threads = 1),
        Box::new(move |p| p.opts.batch_size = 1024),
        Box::new(move |p| p.opts.mem_lz4 = true),
        Box::new({
            let d = d.clone();
            move |p| p.opts.max_partition_size_bytes = d.max_partition_size_bytes
        }),
        Box::new(move |p| p.opts.partition_combine_factor = 4),
        Box::new({
            let d = d.clone();
            move |p| p.opts.max_wal_size_bytes = d.max_wal_size_bytes
        }),
        Box::new(move |p| p.opts.max_wal_files = 1000),
        Box::new({
            let d = d.clone();
            move |p| p.opts.mem_size_limit_tables = d.mem_size_limit_tables
        }),
        Box::new(move |p| p.sched.timer_eager_permille = 0),
        Box::new(move |p| p.sched.kind = 0),
    ];
    for k in knobs {
        if t0.elapsed().as_secs() >= budget_s {
            break;
        }
        let mut cand = best.clone();
        k(&mut cand);
        if cand != best {
            if let Some(p) = reproduces(&cand, class) {
                best = p;
                changed = true;
            }
        }
    }
    (best, changed)
}

// ---------------------------------------------------------------------------------------------

pub fn replay_main(args: &[String]) -> i32 {
    let path = args.get(2).expect("replay <file>");
    let quiet = args.iter().any(|a| a == "--quiet");
    let rf: ReplayFile = match std::fs::read_to_string(path).map_err(|e| e.to_string()).and_then(|s| serde_json::from_str(&s).map_err(|e| e.to_string())) {
        Ok(r) => r,
        Err(e) => {
            eprintln!("cannot read replay file {path}: {e}");
            return 2;
        }
    };
    if args.iter().any(|a| a == "--dump") {
        std::env::set_var("LSIM_DUMP_EVENTS", "1");
    }
    let r = props::run_plan(&rf.plan);
    let same = r.violations.iter().find(|v| v.class == rf.class);
    if !quiet {
        println!("replaying {} (property {}, class {})", path, rf.property, rf.class);
        println!("ops: {:?}", rf.plan.ops.iter().map(crate::exec::op_name).collect::<Vec<_>>());
        println!("event log hash {:016x} (recorded {:016x})", r.stats.event_hash, rf.event_hash);
        for v in &r.violations {
            println!("  violation class={} :: {}", v.class, v.detail);
        }
    }
    match same {
        Some(_) if r.stats.event_hash == rf.event_hash => {
            if !quiet {
                println!("VIOLATION property={} replay={}", rf.property, path);
            }
            1
        }
        Some(_) => {
            eprintln!("replay reproduced class {} but with a different event log (hash {:016x} vs recorded {:016x}): the tree under /repo differs from the one the file was recorded on, or determinism is broken", rf.class, r.stats.event_hash, rf.event_hash);
            if !quiet {
                println!("VIOLATION property={} replay={}", rf.property, path);
            }
            1
        }
        None => {
            if !quiet {
                println!("the recorded violation did not occur");
            }
            0
        }
    }
}

/// Determinism proof: N run seeds of a property, each executed in separate processes at different
/// positions and worker counts; every event-log hash must agree.
pub fn selftest_determinism(args: &[String]) -> i32 {
    let props_list: Vec<String> = cli_arg(args, "--props").map(|s| s.split(',').map(|x| x.to_string()).collect()).unwrap_or_else(|| props::CLAIMED.iter().map(|s| s.to_string()).collect());
    let n = cli_u64(args, "--runs", 60);
    let seed = cli_u64(args, "--seed", 777);
    let exe = std::env::current_exe().unwrap();
    let mut bad = 0;
    let mut total = 0;
    for prop in &props_list {
        // configuration A: 1 process, all runs in order; B: 4 processes, strided; C: reverse chunks
        let mut results: Vec<BTreeMap<u64, u64>> = Vec::new();
        for (jobs, label) in [(1u64, "A"), (4, "B"), (7, "C")] {
            // (strided slices; a slice whose process dies — an open finding makes the database abort
            // inside its own panic message formatting — is resumed after the run that died, which
            // gets a fixed marker instead of a hash)
            let mut pending: Vec<(u64, u64)> = (0..jobs).map(|w| (w, (n + jobs - 1 - w) / jobs)).filter(|x| x.1 > 0).collect();
            let mut m = BTreeMap::new();
            while !pending.is_empty() {
                let mut children = Vec::new();
                for (start, count) in pending.drain(..) {
                    let c = std::process::Command::new(&exe)
                        .envs(malloc_env())
                        .args(["hashes", "--prop", prop, "--seed", &seed.to_string(), "--start", &start.to_string(), "--stride", &jobs.to_string(), "--count", &count.to_string()])
                        .stdout(std::process::Stdio::piped())
                        .stderr(std::process::Stdio::null())
                        .spawn()
                        .unwrap();
                    children.push((start, count, c));
                }
                for (start, count, c) in children {
                    let o = c.wait_with_output().unwrap();
                    let mut got = 0u64;
                    for l in o.stdout.split(|b| *b == b'\n') {
                        let l = String::from_utf8_lossy(l);
                        let mut it = l.split_whitespace();
                        if let (Some("H"), Some(i), Some(h)) = (it.next(), it.next(), it.next()) {
                            m.insert(i.parse::<u64>().unwrap(), u64::from_str_radix(h, 16).unwrap());
                            got += 1;
                        }
                    }
                    if got < count {
                        let died_at = start + got * jobs;
                        m.insert(died_at, 0xAB0127ED_AB0127ED);
                        if got + 1 < count {
                            pending.push((died_at + jobs, count - got - 1));
                        }
                    }
                }
            }
            if m.len() as u64 != n {
                eprintln!("selftest-determinism: {prop} config {label}: {} of {n} hashes received", m.len());
                return 2;
            }
            results.push(m);
        }
        for i in 0..n {
            total += 1;
            if results[0][&i] != results[1][&i] || results[0][&i] != results[2][&i] {
                bad += 1;
                eprintln!("NONDETERMINISM property={prop} run index {i}: {:016x} / {:016x} / {:016x}", results[0][&i], results[1][&i], results[2][&i]);
            }
        }
    }
    println!("selftest-determinism: {total} run seeds x 3 process layouts, {bad} mismatches");
    if bad > 0 {
        2
    } else {
        0
    }
}

pub fn hashes_main(args: &[String]) {
    let prop = cli_arg(args, "--prop").expect("--prop").to_string();
    let seed = cli_u64(args, "--seed", 1);
    let start = cli_u64(args, "--start", 0);
    let stride = cli_u64(args, "--stride", 1);
    let count = cli_u64(args, "--count", 1);
    for k in 0..count {
        let index = start + k * stride;
        let plan = props::gen_plan(&prop, props::mix_seed(seed, &prop, index));
        let r = props::run_plan(&plan);
        let mut h = r.stats.event_hash ^ r.stats.sched_hash.rotate_left(13) ^ r.stats.steps.rotate_left(29);
        for v in &r.violations {
            for b in v.class.bytes() {
                h ^= b as u64;
                h = h.wrapping_mul(0x100000001b3);
            }
        }
        println!("H {index} {h:016x}");
    }
}
