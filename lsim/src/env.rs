//! The driver: owns one database instance on the simulated disk plus the reference model, executes
//! operations through LocustDB's public API and evaluates the sequential oracles.

use crate::model::*;
use crate::sched;
use crate::wire;
use locustdb::{BasicTypeColumn, LocustDB, Options, QueryError, QueryOutput, Value};
use locustdb_simrt as rt;
use rt::core::Rng;
use serde::{Deserialize, Serialize};
use std::collections::{BTreeMap, BTreeSet};
use std::panic::{catch_unwind, AssertUnwindSafe};

/// catch_unwind for calls into the database from harness threads. The engine ends an execution by
/// force-unwinding unfinished coroutines; that unwind must pass through.
pub fn catch<F: FnOnce() -> R + std::panic::UnwindSafe, R>(f: F) -> std::thread::Result<R> {
    match catch_unwind(f) {
        Err(p) if rt::core::in_cleanup() => std::panic::resume_unwind(p),
        r => r,
    }
}

use std::sync::Arc;

#[derive(Clone, Debug, PartialEq, Serialize, Deserialize)]
pub struct OptsSpec {
    pub on_disk: bool,
    pub threads: usize,
    pub read_threads: usize,
    pub io_threads: usize,
    pub wal_threads: usize,
    pub batch_size: usize,
    pub mem_lz4: bool,
    pub max_partition_size_bytes: u64,
    pub partition_combine_factor: u64,
    pub max_wal_size_bytes: u64,
    pub max_wal_files: usize,
    pub mem_size_limit_tables: usize,
}

impl OptsSpec {
    pub fn defaults() -> OptsSpec {
        OptsSpec {
            on_disk: true,
            threads: 2,
            read_threads: 2,
            io_threads: 1,
            wal_threads: 1,
            batch_size: 1024,
            mem_lz4: true,
            max_partition_size_bytes: 8 * 1024 * 1024,
            partition_combine_factor: 4,
            max_wal_size_bytes: 64 * 1024 * 1024,
            max_wal_files: 1000,
            mem_size_limit_tables: 8 * 1024 * 1024 * 1024,
        }
    }

    /// swarm-style: every knob is either pinned to its default or drawn from its interesting values
    pub fn generate(rng: &mut Rng) -> OptsSpec {
        let mut o = OptsSpec::defaults();
        let mut roll = |rng: &mut Rng| rng.below(3) != 0;
        if roll(rng) {
            o.threads = *rng.pick(&[1usize, 2, 3, 8]);
        }
        if roll(rng) {
            o.read_threads = *rng.pick(&[1usize, 2, 4]);
        }
        if roll(rng) {
            o.io_threads = *rng.pick(&[1usize, 4]);
        }
        if roll(rng) {
            o.wal_threads = *rng.pick(&[1usize, 2]);
        }
        if roll(rng) {
            o.batch_size = *rng.pick(&[8usize, 16, 64, 1024]);
        }
        if roll(rng) {
            o.mem_lz4 = rng.below(2) == 0;
        }
        if roll(rng) {
            o.max_partition_size_bytes = *rng.pick(&[1u64, 64, 200, 1000, 8 * 1024 * 1024]);
        }
        if roll(rng) {
            o.partition_combine_factor = *rng.pick(&[0u64, 1, 4, 999]);
        }
        o
    }

    pub fn to_options(&self, root: &str) -> Options {
        Options {
            threads: self.threads,
            read_threads: self.read_threads,
            db_path: if self.on_disk { Some(root.into()) } else { None },
            mem_size_limit_tables: self.mem_size_limit_tables,
            mem_lz4: self.mem_lz4,
            readahead: 256 * 1024 * 1024,
            max_wal_size_bytes: self.max_wal_size_bytes,
            max_wal_files: self.max_wal_files,
            max_partition_size_bytes: self.max_partition_size_bytes,
            partition_combine_factor: self.partition_combine_factor,
            batch_size: self.batch_size,
            max_partition_length: 1024 * 1024,
            wal_flush_compaction_threads: self.wal_threads,
            io_threads: self.io_threads,
            metrics_interval: 15,
            // the metrics table reads a process-global registry; switched off (DESIGN 3.2)
            metrics_table_name: None,
        }
    }
}

#[derive(Clone, Debug, PartialEq, Serialize, Deserialize)]
pub struct Violation {
    /// stable key: oracle kind plus, for panics, source file and message stem
    pub class: String,
    pub detail: String,
}

#[derive(Clone, Debug)]
pub struct QOut {
    pub colnames: Vec<String>,
    pub rows: Vec<Vec<Cell>>,
    /// column view, converted cell by cell
    pub cols: Vec<(String, Vec<Cell>)>,
    pub had_rows: bool,
}

#[derive(Clone, Debug, PartialEq)]
pub enum QErr {
    /// the query returned an error value
    Err(String, String),
    /// the calling thread panicked inside the call
    Panic(String),
}

impl QErr {
    pub fn kind(&self) -> String {
        match self {
            QErr::Err(k, _) => k.clone(),
            QErr::Panic(_) => "Panic".into(),
        }
    }
    pub fn msg(&self) -> String {
        match self {
            QErr::Err(_, m) => m.clone(),
            QErr::Panic(m) => m.clone(),
        }
    }
}

pub fn value_to_cell(v: &Value) -> Cell {
    match v {
        Value::Int(i) => Cell::I(*i),
        Value::Float(f) => Cell::F(f.0.to_bits()),
        // (the database can hand out strings that are not UTF-8, see known findings)
        Value::Str(s) => Cell::S(String::from_utf8_lossy(s.as_bytes()).into_owned()),
        Value::Null => Cell::N,
    }
}

fn column_to_cells(c: &BasicTypeColumn) -> Vec<Cell> {
    match c {
        BasicTypeColumn::Int(v) => v.iter().map(|i| Cell::I(*i)).collect(),
        BasicTypeColumn::Float(v) => v.iter().map(|f| Cell::F(f.to_bits())).collect(),
        BasicTypeColumn::String(v) => v.iter().map(|s| Cell::S(String::from_utf8_lossy(s.as_bytes()).into_owned())).collect(),
        BasicTypeColumn::Null(n) => vec![Cell::N; *n],
        BasicTypeColumn::Mixed(v) => v.iter().map(value_to_cell).collect(),
    }
}

pub fn query_error_kind(e: &QueryError) -> &'static str {
    match e {
        QueryError::SytaxErrorCharsRemaining(_) => "SyntaxError",
        QueryError::SyntaxErrorBytesRemaining(_) => "SyntaxError",
        QueryError::ParseError(_) => "ParseError",
        QueryError::FatalError(_, _) => "FatalError",
        QueryError::NotImplemented(_) => "NotImplemented",
        QueryError::TypeError(_) => "TypeError",
        QueryError::Overflow => "Overflow",
        QueryError::Canceled { .. } => "Canceled",
    }
}

pub fn convert_output(o: &QueryOutput) -> QOut {
    let rows = o.rows.as_ref().map(|rs| rs.iter().map(|r| r.iter().map(value_to_cell).collect()).collect()).unwrap_or_default();
    QOut {
        colnames: o.colnames.iter().map(|n| String::from_utf8_lossy(n.as_bytes()).into_owned()).collect(),
        rows,
        cols: o.columns.iter().map(|(n, c)| (String::from_utf8_lossy(n.as_bytes()).into_owned(), column_to_cells(c))).collect(),
        had_rows: o.rows.is_some(),
    }
}

/// The panic a hang is attributed to: the first one that killed a thread, not counting
/// `PoisonError` unwraps (consequences of an earlier panic that held the lock) and unwraps of a
/// `Canceled` query error (the consequence of a panic inside that query's task);
/// failing that the first panic that is not such a consequence; failing that the first.
pub fn root_cause(panics: &[rt::core::PanicRec]) -> Option<&rt::core::PanicRec> {
    let consequence = |p: &rt::core::PanicRec| p.message.contains("PoisonError") || p.message.trim_end().ends_with("value: Canceled");
    panics.iter().find(|p| !p.contained && !consequence(p)).or_else(|| panics.iter().find(|p| !consequence(p))).or(panics.first())
}

/// Class of "the calling thread panicked inside an API call". A caller that trips over a lock
/// poisoned by an earlier panic is a consequence of that panic and is classed with it
/// (`poisoned_after_panic:<file>:<stem>`), so that an open finding is recognised through this
/// consequence too and an unrelated poisoning is not hidden behind a generic class.
pub fn caller_panic_class(prefix: &str, msg: &str) -> String {
    if msg.contains("PoisonError") {
        let root = rt::core::with_ctx(|c| root_cause(&c.panics).filter(|p| !p.message.contains("PoisonError")).map(|p| format!("poisoned_after_panic:{}:{}", file_of(&p.location), stem(&p.message))));
        if let Some(r) = root {
            return r;
        }
    }
    format!("{prefix}:{}", stem(msg))
}

pub fn panic_message(p: &Box<dyn std::any::Any + Send>) -> String {
    let s = if let Some(s) = p.downcast_ref::<&str>() {
        s.to_string()
    } else if let Some(s) = p.downcast_ref::<String>() {
        s.clone()
    } else {
        "<panic>".into()
    };
    String::from_utf8_lossy(s.as_bytes()).into_owned()
}

/// Run a query on the calling simulated thread; panics in the caller become `QErr::Panic`.
pub fn run_query(db: &LocustDB, sql: &str) -> Result<QOut, QErr> {
    run_query_fmt(db, sql, true)
}

/// `rowformat` as in `LocustDB::run_query`: whether the row view is materialised too
pub fn run_query_fmt(db: &LocustDB, sql: &str, rowformat: bool) -> Result<QOut, QErr> {
    rt::core::log("q_invoke", || rt::core::truncate(sql, 200));
    let r = catch(AssertUnwindSafe(|| rt::block_on(db.run_query(sql, false, rowformat, vec![]))));
    let out = match r {
        Ok(Ok(o)) => Ok(convert_output(&o)),
        Ok(Err(e)) => Err(QErr::Err(query_error_kind(&e).to_string(), rt::core::truncate(&String::from_utf8_lossy(format!("{e}").as_bytes()), 300))),
        Err(p) => Err(QErr::Panic(rt::core::truncate(&panic_message(&p), 300))),
    };
    if std::env::var_os("LSIM_TRACE_KEYS").is_some() {
        let (k0, _k1): (u64, u64) = unsafe { std::mem::transmute(std::collections::hash_map::RandomState::new()) };
        eprintln!("[keys] after query {}: k0={k0}", rt::core::truncate(sql, 100));
    }
    rt::core::log("q_return", || match &out {
        Ok(o) => format!("ok rows={}", o.rows.len()),
        Err(e) => format!("{}: {}", e.kind(), rt::core::truncate(&e.msg(), 80)),
    });
    sched::progress();
    out
}

/// the LZ4 frame magic (04 22 4D 18) showing up inside a returned string: the signature of the
/// open finding "Column::decode unpacks strings from the compressed section"
pub fn is_lz4_garbage(s: &str) -> bool {
    // ... or bytes that are no text at all: control characters or invalid UTF-8 (after lossy
    // conversion: U+FFFD). The generators never produce either, so such a string can only be
    // compressed bytes decoded as packed strings.
    s.contains("\"M\u{18}") || s.chars().any(|c| c == '\u{FFFD}' || (c as u32) < 0x20 || c == '\u{7f}')
}

pub const GARBAGE_CLASS: &str = "cell:wrong_value:lz4_frame_bytes_read_as_string";

pub fn quote_ident(s: &str) -> String {
    format!("\"{}\"", s)
}

static NAME_WORDS: std::sync::Mutex<BTreeSet<String>> = std::sync::Mutex::new(BTreeSet::new());

/// Table and column names of the current plan: dropped from message stems so that a violation
/// class does not depend on which generated name happened to be involved.
pub fn register_name_words(words: impl IntoIterator<Item = String>) {
    let mut g = NAME_WORDS.lock().unwrap();
    g.clear();
    g.extend(words);
}

pub fn stem(msg: &str) -> String {
    // message stem: digits, quoted parts and generated identifiers removed, first words kept
    let names = NAME_WORDS.lock().unwrap();
    // an unwrapped QueryError: its own message is the informative part
    if let Some(i) = msg.find("FatalError(\"") {
        let inner: String = msg[i + 12..].chars().take_while(|c| *c != '"').collect();
        let inner: String = inner.chars().filter(|c| !c.is_ascii_digit()).collect();
        return format!("FatalError: {}", inner.split_whitespace().take(8).collect::<Vec<_>>().join(" "));
    }
    // messages that go on to quote table / column names are cut before them
    let msg = match msg.find(", table") {
        Some(i) => &msg[..i],
        None => msg,
    };
    // ... and before paths on the simulated disk
    let msg = match msg.find("/sim/") {
        Some(i) => &msg[..i],
        None => msg,
    };
    let mut cleaned = String::new();
    let mut in_q = false;
    for ch in msg.chars() {
        if ch == '"' || ch == '\'' || ch == '`' {
            in_q = !in_q;
            cleaned.push(' ');
            continue;
        }
        if in_q || ch.is_ascii_digit() {
            continue;
        }
        cleaned.push(ch);
    }
    let mut out: Vec<&str> = Vec::new();
    for w in cleaned.split_whitespace() {
        let bare = w.trim_matches(|c: char| !c.is_alphanumeric() && c != '_');
        if bare.is_empty() || (bare.len() >= 2 && names.contains(bare)) {
            continue;
        }
        out.push(w);
        if out.len() >= 7 {
            break;
        }
    }
    let mut s = out.join(" ");
    if s.len() > 70 {
        let mut e = 70;
        while !s.is_char_boundary(e) {
            e -= 1;
        }
        s.truncate(e);
    }
    s
}

pub fn file_of(location: &str) -> String {
    let f = location.rsplit('/').next().unwrap_or(location);
    f.split(':').next().unwrap_or(f).to_string()
}

pub struct Env {
    pub root: String,
    pub opts: OptsSpec,
    pub db: Option<Arc<LocustDB>>,
    pub model: Model,
    pub violations: Vec<Violation>,
    pub counters: BTreeMap<String, u64>,
    pub panics_seen: usize,
    pub strict_types: bool,
    /// thread group of this instance's database threads
    pub group: u32,
    /// a panic the database caught itself (worker survives, caller gets an error) is a violation
    /// except where failing requests are the workload (C11/C12)
    pub contained_panics_violate: bool,
    /// (sql, outcome) of every generated query, for the differential oracle (C02)
    pub query_log: Vec<(String, Result<QOut, QErr>)>,
    /// (table, column) pairs for which some request carried no value at all (column absent or all
    /// NULL in the request): some partition may hold the column with type Null
    pub null_typed: BTreeSet<(String, String)>,
}

static NEXT_GROUP: std::sync::atomic::AtomicU32 = std::sync::atomic::AtomicU32::new(1);

impl Env {
    pub fn new(root: &str, opts: OptsSpec) -> Env {
        rt::fs::add_root(root);
        Env { root: root.to_string(), opts, db: None, model: Model::default(), violations: Vec::new(), counters: BTreeMap::new(), panics_seen: 0, strict_types: false, group: NEXT_GROUP.fetch_add(1, std::sync::atomic::Ordering::SeqCst), contained_panics_violate: true, query_log: Vec::new(), null_typed: BTreeSet::new() }
    }

    pub fn count(&mut self, k: &str) {
        *self.counters.entry(k.to_string()).or_insert(0) += 1;
    }
    pub fn count_n(&mut self, k: &str, n: u64) {
        *self.counters.entry(k.to_string()).or_insert(0) += n;
    }

    pub fn violate(&mut self, class: &str, detail: String) {
        if self.violations.len() < 20 {
            self.violations.push(Violation { class: class.to_string(), detail: rt::core::truncate(&detail, 600) });
        }
    }

    /// Turn panics recorded by the facade since the last call into violations of class
    /// `panic:<file>:<message stem>`.
    pub fn collect_panics(&mut self, context: &str) {
        let (all, from): (Vec<rt::core::PanicRec>, usize) = rt::core::with_ctx(|c| (c.panics.clone(), self.panics_seen.min(c.panics.len())));
        self.panics_seen = all.len();
        let cpv = self.contained_panics_violate;
        let reported = move |p: &rt::core::PanicRec| !p.contained || cpv;
        // index of the first panic that is (or was) reported: later PoisonError / Canceled panics are its echoes
        let first_reported = all.iter().position(reported);
        let mut out = Vec::new();
        for (i, p) in all.iter().enumerate().skip(from) {
            if p.contained {
                self.count("panics_contained_by_database");
            }
            if !reported(p) {
                continue;
            }
            if first_reported.map(|f| i > f).unwrap_or(false) && (p.message.contains("PoisonError") || p.message.contains("Canceled")) {
                continue;
            }
            let class = format!("panic:{}:{}", file_of(&p.location), stem(&p.message));
            out.push((class, format!("[{context}] thread {} panicked at {}{}: {}", p.role, p.location, if p.contained { " (caught by the worker loop; the request fails)" } else { "" }, rt::core::truncate(&p.message, 300))));
        }
        for (c, d) in out {
            self.violate(&c, d);
        }
    }

    pub fn open(&mut self) -> bool {
        assert!(self.db.is_none());
        rt::thread::set_current_group(self.group);
        rt::core::log("op_invoke", || "open".into());
        let o = self.opts.to_options(&self.root);
        let r = catch(AssertUnwindSafe(|| LocustDB::new(&o)));
        sched::progress();
        match r {
            Ok(db) => {
                self.db = Some(Arc::new(db));
                rt::core::log("op_return", || "open ok".into());
                self.count("open");
                true
            }
            Err(p) => {
                let msg = panic_message(&p);
                rt::core::log("op_return", || format!("open panicked: {}", rt::core::truncate(&msg, 100)));
                self.violate(&format!("open_failed:{}", stem(&msg)), format!("LocustDB::new panicked: {msg}"));
                false
            }
        }
    }

    /// Clean shutdown: drop the handle and wait until every thread of the instance has exited.
    pub fn close(&mut self) {
        rt::core::log("op_invoke", || "close".into());
        if let Some(db) = self.db.take() {
            match Arc::try_unwrap(db) {
                Ok(db) => drop(db),
                Err(shared) => {
                    // client threads that never finished (reported as a hang) still hold the
                    // handle: nothing to wait for
                    drop(shared);
                    self.count("close_with_stuck_clients");
                    rt::core::log("op_return", || "close (handle still held by stuck clients)".into());
                    return;
                }
            }
        }
        if !rt::thread::wait_db_quiescent(self.group) {
            // threads of the closed instance are blocked for good; the process would simply go on
            self.count("close_left_threads_blocked");
            rt::core::log("note", || format!("instance left blocked threads behind: {:?}", rt::core::wait_reasons()));
        }
        // a later instance gets a fresh thread group
        self.group = NEXT_GROUP.fetch_add(1, std::sync::atomic::Ordering::SeqCst);
        sched::progress();
        rt::core::log("op_return", || "close".into());
        self.count("close");
    }

    pub fn restart(&mut self) -> bool {
        self.close();
        self.count("restart");
        self.open()
    }

    pub fn db(&self) -> Arc<LocustDB> {
        rt::thread::set_current_group(self.group);
        self.db.as_ref().expect("database open").clone()
    }

    pub fn ingest(&mut self, req: &Request) {
        let db = self.db();
        rt::core::log("op_invoke", || format!("ingest req={} tables={}", req.id, req.tables.len()));
        for tb in &req.tables {
            for c in &tb.cols {
                let key = format!("repr:{}", wire::repr_name(&wire::column_data_for(c, !matches!(req.path, IngestPath::Native | IngestPath::NativeWire))));
                self.count(&key);
            }
        }
        let r = if req.path == IngestPath::Http {
            // through the server's binary insert endpoint
            match crate::http::insert(&db, req) {
                Ok(o) if o.status == 200 => Ok(()),
                Ok(o) => {
                    self.violate("http:insert_refused", format!("/insert_bin answered {} for request {}: {}", o.status, req.id, rt::core::truncate(&String::from_utf8_lossy(&o.body), 200)));
                    return;
                }
                Err(m) => Err(Box::new(m) as Box<dyn std::any::Any + Send>),
            }
        } else {
            let eb = wire::event_buffer_for(req);
            catch(AssertUnwindSafe(|| rt::block_on(db.ingest_efficient(eb))))
        };
        sched::progress();
        match r {
            Ok(()) => {
                // columns that first appear when the table already has rows: the earlier partitions lack them
                let before: BTreeMap<String, (usize, Vec<String>)> = req.tables.iter().filter_map(|tb| self.model.tables.get(&tb.table).map(|mt| (tb.table.clone(), (mt.rows.len(), mt.cols.clone())))).collect();
                self.model.apply(req);
                for tb in &req.tables {
                    if let Some(mt) = self.model.tables.get(&tb.table) {
                        if let Some((rows, cols)) = before.get(&tb.table) {
                            for c in &mt.cols {
                                if *rows > 0 && !cols.contains(c) {
                                    self.null_typed.insert((tb.table.clone(), c.clone()));
                                }
                            }
                        }
                        for c in &mt.cols {
                            let has_value = tb.cols.iter().any(|bc| &bc.name == c && bc.cells.iter().any(|x| !x.is_null()));
                            if !has_value {
                                self.null_typed.insert((tb.table.clone(), c.clone()));
                            }
                        }
                    }
                }
                rt::core::log("op_return", || format!("ingest req={} acked", req.id));
                self.count("ingest");
                self.count_n("rows_ingested", req.tables.iter().map(|t| t.rows as u64).sum());
            }
            Err(p) => {
                let msg = panic_message(&p);
                rt::core::log("op_return", || format!("ingest req={} panicked", req.id));
                self.violate(&caller_panic_class("ingest_panicked", &msg), format!("ingest_efficient panicked in the caller: {msg}"));
            }
        }
    }

    pub fn flush(&mut self) {
        let db = self.db();
        rt::core::log("op_invoke", || "flush".into());
        let r = catch(AssertUnwindSafe(|| db.force_flush()));
        sched::progress();
        rt::core::log("op_return", || "flush".into());
        self.count("flush");
        if let Err(p) = r {
            let msg = panic_message(&p);
            self.violate(&format!("flush_panicked:{}", stem(&msg)), format!("force_flush panicked in the caller: {msg}"));
        }
    }

    pub fn evict(&mut self) {
        let db = self.db();
        rt::core::log("op_invoke", || "evict".into());
        let r = catch(AssertUnwindSafe(|| db.evict_cache()));
        sched::progress();
        rt::core::log("op_return", || "evict".into());
        self.count("evict");
        match r {
            Ok(n) => self.count_n("bytes_evicted", n as u64),
            Err(p) => {
                let msg = panic_message(&p);
                self.violate(&format!("evict_panicked:{}", stem(&msg)), format!("evict_cache panicked in the caller: {msg}"));
            }
        }
    }

    pub fn query(&mut self, sql: &str) -> Result<QOut, QErr> {
        let db = self.db();
        self.count("query");
        run_query(&db, sql)
    }

    /// `SELECT *` of one table against the model: same columns (each once), same rows in the same
    /// order, every cell acceptable under the narrow degradation rule.
    pub fn check_table(&mut self, name: &str, ctx: &str) {
        let t = match self.model.tables.get(name) {
            Some(t) => t.clone(),
            None => return,
        };
        let sql = format!("SELECT * FROM {}", quote_ident(name));
        let out = match self.query(&sql) {
            Ok(o) => o,
            Err(e) => {
                self.violate(&format!("read_failed:{}:{}", e.kind(), stem(&e.msg())), format!("[{ctx}] {sql} -> {}: {}", e.kind(), e.msg()));
                return;
            }
        };
        // columns: SELECT * lists every column ever ingested exactly once (sorted by name)
        let mut want_cols: Vec<String> = t.cols.clone();
        want_cols.sort();
        if out.colnames != want_cols {
            if out.colnames.iter().any(|c| is_lz4_garbage(c)) {
                self.violate(GARBAGE_CLASS, format!("[{ctx}] table {name}: SELECT * lists column names that are compressed bytes: {:?}", out.colnames));
                return;
            }
            let got: BTreeSet<_> = out.colnames.iter().cloned().collect();
            let want: BTreeSet<_> = want_cols.iter().cloned().collect();
            let missing: Vec<_> = want.difference(&got).cloned().collect();
            let extra: Vec<_> = got.difference(&want).cloned().collect();
            let dup = out.colnames.len() != got.len();
            self.violate(
                if dup { "columns:duplicate" } else if !missing.is_empty() { "columns:missing" } else if !extra.is_empty() { "columns:extra" } else { "columns:order" },
                format!("[{ctx}] table {name}: SELECT * columns {:?}, model {:?} (missing {:?}, extra {:?})", out.colnames, want_cols, missing, extra),
            );
            return;
        }
        if out.rows.len() != t.rows.len() {
            self.violate(
                if out.rows.len() < t.rows.len() { "rows:lost" } else { "rows:extra" },
                format!("[{ctx}] table {name}: {} rows returned, {} acknowledged", out.rows.len(), t.rows.len()),
            );
            return;
        }
        for (ci, cname) in out.colnames.iter().enumerate() {
            let mi = t.col_index(cname).unwrap();
            let mix = t.type_mix(mi);
            let strict = self.strict_types || ((mix.0 as u8 + mix.1 as u8 + mix.2 as u8) <= 1);
            for r in 0..t.rows.len() {
                let want = t.cell(r, mi);
                let got = &out.rows[r][ci];
                let ok = if strict { want == got } else { cell_acceptable(want, got, mix) };
                if !ok {
                    let class = match (want, got) {
                        (Cell::N, _) => "cell:null_became_value",
                        (_, Cell::N) => "cell:value_became_null",
                        (_, Cell::S(g)) if is_lz4_garbage(g) => "cell:wrong_value:lz4_frame_bytes_read_as_string",
                        _ => {
                            // does the value belong to another row of the same column? (shift)
                            let col = t.column(cname);
                            if col.iter().any(|c| c == got) {
                                "cell:value_from_other_row"
                            } else {
                                "cell:wrong_value"
                            }
                        }
                    };
                    self.violate(
                        class,
                        format!("[{ctx}] table {name} column {cname:?} row {r}: got {}, supplied {} (column type mix int/float/str = {:?})", got.short(), want.short(), mix),
                    );
                    return;
                }
            }
        }
        // the column view must describe the same cells as the row view
        if out.cols.len() == out.colnames.len() {
            for (ci, (cn, cells)) in out.cols.iter().enumerate() {
                if cn != &out.colnames[ci] || cells.len() != out.rows.len() || cells.iter().enumerate().any(|(r, c)| c != &out.rows[r][ci]) {
                    self.violate("views_differ", format!("[{ctx}] table {name}: column view of {cn:?} differs from row view"));
                    return;
                }
            }
        }
        self.count("tables_checked");
        self.count_n("cells_checked", (t.rows.len() * t.cols.len()) as u64);
    }

    /// Catalogue: `_meta_tables` names every user table and every `_meta_columns_<t>` exactly once;
    /// `_meta_columns_<t>` names every column of t exactly once.
    pub fn check_catalogue(&mut self, ctx: &str) {
        match self.query("SELECT name, timestamp FROM _meta_tables") {
            Ok(o) => {
                let got: Vec<String> = o.rows.iter().map(|r| match &r[0] { Cell::S(s) => s.clone(), c => c.short() }).collect();
                let mut want: Vec<String> = Vec::new();
                for t in &self.model.table_order {
                    want.push(t.clone());
                    want.push(format!("_meta_columns_{t}"));
                }
                let mut g = got.clone();
                g.sort();
                let mut w = want.clone();
                w.sort();
                if g != w {
                    let gs: BTreeSet<_> = g.iter().cloned().collect();
                    let class = if g.iter().any(|c| is_lz4_garbage(c)) { GARBAGE_CLASS } else if gs.len() != g.len() { "catalogue:table_listed_twice" } else if g.len() < w.len() { "catalogue:table_missing" } else { "catalogue:table_extra" };
                    self.violate(class, format!("[{ctx}] _meta_tables lists {:?}, model {:?}", got, want));
                }
            }
            Err(e) => self.violate(&format!("read_failed:{}:{}", e.kind(), stem(&e.msg())), format!("[{ctx}] SELECT name FROM _meta_tables -> {}: {}", e.kind(), e.msg())),
        }
        let names: Vec<String> = self.model.tables.keys().cloned().collect();
        for name in names {
            let sql = format!("SELECT column_name FROM {}", quote_ident(&format!("_meta_columns_{name}")));
            match self.query(&sql) {
                Ok(o) => {
                    let mut got: Vec<String> = o.rows.iter().map(|r| match &r[0] { Cell::S(s) => s.clone(), c => c.short() }).collect();
                    got.sort();
                    let mut want = self.model.tables[&name].cols.clone();
                    want.sort();
                    if got != want {
                        let gs: BTreeSet<_> = got.iter().cloned().collect();
                        let class = if got.iter().any(|c| is_lz4_garbage(c)) { GARBAGE_CLASS } else if gs.len() != got.len() { "catalogue:column_listed_twice" } else if got.len() < want.len() { "catalogue:column_missing" } else { "catalogue:column_extra" };
                        self.violate(class, format!("[{ctx}] _meta_columns_{name} lists {:?}, model {:?}", got, want));
                    }
                }
                Err(e) => self.violate(&format!("read_failed:{}:{}", e.kind(), stem(&e.msg())), format!("[{ctx}] {sql} -> {}: {}", e.kind(), e.msg())),
            }
        }
        self.count("catalogue_checked");
    }

    pub fn check_all(&mut self, ctx: &str) {
        let names: Vec<String> = self.model.tables.keys().cloned().collect();
        for n in names {
            self.check_table(&n, ctx);
        }
        self.check_catalogue(ctx);
        self.collect_panics(ctx);
    }
}
