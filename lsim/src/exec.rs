//! Executes a plan inside one simulated execution and evaluates the oracles.

use crate::env::*;
use crate::model::*;
use crate::plan::*;
use crate::sched;
use crate::sim::{self, EndState};
use locustdb_simrt as rt;
use std::collections::{BTreeMap, BTreeSet};
use std::sync::{Arc, Mutex};

pub const ROOT: &str = "/sim/db";
/// set per run from the plan: panics contained by the worker loop are the expected fate of failing requests
pub static FAILING_REQUESTS_EXPECTED: std::sync::atomic::AtomicBool = std::sync::atomic::AtomicBool::new(false);

#[derive(Default)]
pub struct Shared {
    pub violations: Vec<Violation>,
    pub counters: BTreeMap<String, u64>,
    pub last_op: String,
    pub layout_sig: u64,
    pub maintenance_steps: u64,
    pub acked_reqs: Vec<u32>,
}

fn fnv(h: &mut u64, b: &[u8]) {
    for x in b {
        *h ^= *x as u64;
        *h = h.wrapping_mul(0x100000001b3);
    }
}

/// wal file names present under root/wal
fn wal_files(root: &str) -> Vec<String> {
    let pre = format!("{root}/wal/");
    rt::fs::list_all(root).into_iter().filter(|(k, _)| k.starts_with(&pre)).map(|(k, _)| k[pre.len()..].to_string()).collect()
}

/// C08: at a quiescent point `wal/` holds exactly one `<n>.wal` per request acknowledged since the
/// last completed flush froze the buffers, with consecutive numbers, and nothing else.
fn check_wal_files(env: &mut Env, unflushed: usize, ctx: &str) {
    if !env.opts.on_disk {
        return;
    }
    let files = wal_files(&env.root);
    let mut ids: Vec<u64> = Vec::new();
    for f in &files {
        match f.strip_suffix(".wal").and_then(|s| s.parse::<u64>().ok()) {
            Some(i) => ids.push(i),
            None => {
                env.violate("wal:foreign_file", format!("[{ctx}] unexpected file in wal/: {f:?} (all: {files:?})"));
                return;
            }
        }
    }
    ids.sort();
    if ids.len() != unflushed {
        env.violate(
            if ids.len() > unflushed { "wal:too_many_segments" } else { "wal:segment_missing" },
            format!("[{ctx}] wal/ holds {:?} but {} request(s) were acknowledged since the last flush", files, unflushed),
        );
        return;
    }
    if ids.windows(2).any(|w| w[1] != w[0] + 1) {
        env.violate("wal:not_contiguous", format!("[{ctx}] wal segment ids not contiguous: {ids:?}"));
    }
    env.count("wal_files_checked");
}

/// C18: after a completed flush with nothing else running, the directory holds exactly the
/// catalogue and the partition files a cold scan of a reopened copy needs: no log segment, no
/// temporary file, no file that the database itself never opens.
fn check_no_garbage(env: &mut Env, ctx: &str) {
    if !env.opts.on_disk {
        return;
    }
    let files = rt::fs::list_all(&env.root);
    for (k, _) in &files {
        if k.contains("INCOMPLETE") {
            env.violate("garbage:temp_file", format!("[{ctx}] temporary file left behind: {k}"));
            return;
        }
    }
    let wal = wal_files(&env.root);
    if !wal.is_empty() {
        env.violate("garbage:wal_segment", format!("[{ctx}] wal/ not empty after a completed flush: {wal:?}"));
        return;
    }
    // reopen a copy on a read-tracing disk and scan every column of every table cold
    let copy_root = format!("{}_gc", env.root);
    rt::fs::remove_root(&copy_root);
    let img = rt::fs::reroot(&rt::fs::snapshot(&env.root), &env.root, &copy_root);
    rt::fs::install(&img);
    let mut o2 = env.opts.clone();
    o2.max_wal_size_bytes = 64 * 1024 * 1024;
    o2.max_wal_files = 1000;
    o2.mem_size_limit_tables = 8 * 1024 * 1024 * 1024;
    let mut e2 = Env::new(&copy_root, o2);
    e2.model = env.model.clone();
    e2.panics_seen = env.panics_seen;
    rt::fs::with_state(|st| st.reads.clear());
    if e2.open() {
        e2.check_all(&format!("{ctx}/reopened-copy"));
        e2.close();
    }
    env.panics_seen = e2.panics_seen;
    let opened: BTreeSet<String> = rt::fs::with_state(|st| st.reads.iter().cloned().collect());
    for v in e2.violations.drain(..) {
        env.violations.push(v);
    }
    let meta = format!("{copy_root}/meta");
    for (k, _) in rt::fs::list_all(&copy_root) {
        if k == meta {
            continue;
        }
        if !opened.contains(&k) {
            env.violate(
                "garbage:unreferenced_file",
                format!("[{ctx}] {} is never opened by a full cold scan of the reopened directory (a partition file of a merged-away partition, or an orphan)", k.replacen(&copy_root, &env.root, 1)),
            );
            break;
        }
    }
    rt::fs::remove_root(&copy_root);
    env.count("garbage_checked");
}

fn check_fs_monitors(env: &mut Env, ctx: &str) {
    let (viol, toolong) = rt::fs::with_state(|st| (std::mem::take(&mut st.monitor_violations), std::mem::replace(&mut st.enametoolong, 0)));
    for v in viol {
        env.violate("fs:path_outside_root", format!("[{ctx}] {v}"));
    }
    if toolong > 0 {
        env.violate("fs:name_too_long", format!("[{ctx}] the database asked the file system for a path component longer than {} bytes ({} times)", rt::fs::NAME_MAX, toolong));
    }
}

fn layout_signature(env: &Env) -> u64 {
    let mut h = 0xcbf29ce484222325u64;
    for (k, n) in rt::fs::list_all(&env.root) {
        // file names carry partition ids and sub-partition keys; sizes carry the codec choice
        fnv(&mut h, k.as_bytes());
        fnv(&mut h, &(n as u64 / 16).to_le_bytes());
    }
    h
}

pub struct HistoryOutcome {
    pub query_log: Vec<(String, Result<QOut, QErr>)>,
    pub violations: Vec<Violation>,
    pub counters: BTreeMap<String, u64>,
    pub layout_sig: u64,
    pub maintenance: u64,
}

/// Sequential history: open, execute ops (full read-back after each if requested), close.
pub fn history_body(plan: &Plan, out: Arc<Mutex<Option<HistoryOutcome>>>) {
    let mut env = Env::new(ROOT, plan.opts.clone());
    env.strict_types = plan.strict_types;
    env.contained_panics_violate = plan.knob("failing_requests_expected", 0) == 0;
    let mut unflushed = 0usize;
    let mut maintenance = 0u64;
    let mut sig = 0xcbf29ce484222325u64;
    let has = |e: Extra| plan.extras.contains(&e);
    if env.open() {
        for (i, op) in plan.ops.iter().enumerate() {
            let ctx = format!("op#{i} {}", op_name(op));
            if std::env::var_os("LSIM_TRACE_KEYS").is_some() {
                // diagnostic for determinism triage: how many std RandomStates this OS thread has
                // created so far (each advances the per-thread hash key by one)
                let (k0, _k1): (u64, u64) = unsafe { std::mem::transmute(std::collections::hash_map::RandomState::new()) };
                eprintln!("[keys] before {ctx}: k0={k0}");
            }
            match op {
                Op::Ingest(req) => {
                    env.ingest(req);
                    unflushed = unflushed.saturating_add(1);
                }
                Op::Flush => {
                    env.flush();
                    unflushed = 0;
                    maintenance += 1;
                    // (the reopen-and-scan oracle is expensive: every flush of short plans, a seeded
                    // third of the flushes plus the last one in long plans)
                    let last_flush = !plan.ops[i + 1..].iter().any(|o| matches!(o, Op::Flush));
                    if has(Extra::NoGarbage) && (plan.ops.len() < 16 || last_flush || (plan.seed.wrapping_add(i as u64 * 7919) % 3 == 0)) {
                        check_no_garbage(&mut env, &ctx);
                    }
                }
                Op::Evict => {
                    env.evict();
                    maintenance += 1;
                }
                Op::Restart => {
                    if !env.restart() {
                        break;
                    }
                    maintenance += 1;
                }
                Op::CheckAll => env.check_all(&ctx),
                Op::Sleep(ms) => {
                    rt::core::log("op_invoke", || format!("sleep {ms}ms"));
                    rt::time::sleep(std::time::Duration::from_millis(*ms));
                    sched::progress();
                    rt::core::log("op_return", || "sleep".into());
                    // a background flush may have happened: the wal-file oracle no longer knows
                    unflushed = usize::MAX;
                }
                Op::ReadColumn { table, column } => read_column(&mut env, table, column, &ctx),
                Op::SearchColumns { table, pattern } => search_columns(&mut env, table, pattern, &ctx),
                Op::Stats => {
                    let db = env.db();
                    let r = crate::env::catch(std::panic::AssertUnwindSafe(|| rt::block_on(db.table_stats())));
                    sched::progress();
                    if !matches!(r, Ok(Ok(_))) {
                        env.violate("stats_failed", format!("[{ctx}] table_stats did not return a value"));
                    }
                }
                Op::MemTree => {
                    let db = env.db();
                    let r = crate::env::catch(std::panic::AssertUnwindSafe(|| rt::block_on(db.mem_tree(2, None))));
                    sched::progress();
                    if !matches!(r, Ok(Ok(_))) {
                        env.violate("mem_tree_failed", format!("[{ctx}] mem_tree did not return a value"));
                    }
                }
                other => crate::exec_more::exec_other(&mut env, other, &ctx),
            }
            if plan.check_each && !matches!(op, Op::CheckAll) {
                env.check_all(&ctx);
            } else {
                env.collect_panics(&ctx);
            }
            if has(Extra::WalFiles) && unflushed != usize::MAX && background_flush_impossible(&env.opts) {
                check_wal_files(&mut env, unflushed, &ctx);
            }
            if has(Extra::FsMonitors) {
                check_fs_monitors(&mut env, &ctx);
            }
            fnv(&mut sig, &layout_signature(&env).to_le_bytes());
            if !env.violations.is_empty() {
                break;
            }
        }
        if env.db.is_some() {
            env.close();
        }
        env.collect_panics("close");
    }
    env.count_n("poison_errors_seen", rt::core::with_ctx(|c| c.poison_seen));
    *out.lock().unwrap() = Some(HistoryOutcome { query_log: std::mem::take(&mut env.query_log), violations: env.violations.clone(), counters: env.counters.clone(), layout_sig: sig, maintenance });
}

/// the background flush thread only acts when the WAL limits are exceeded
fn background_flush_impossible(o: &OptsSpec) -> bool {
    o.max_wal_size_bytes >= 1 << 20 && o.max_wal_files >= 100
}

pub fn op_name(op: &Op) -> String {
    match op {
        Op::Ingest(r) => format!("ingest(req {}, {} table(s), {:?})", r.id, r.tables.len(), r.path),
        Op::Flush => "force_flush".into(),
        Op::Evict => "evict_cache".into(),
        Op::Restart => "restart".into(),
        Op::CheckAll => "check".into(),
        Op::Query(q) => format!("query {}", rt::core::truncate(&q.sql, 80)),
        Op::RawQuery(s) => format!("raw query {}", rt::core::truncate(s, 80)),
        Op::Sleep(ms) => format!("sleep {ms}ms"),
        Op::Stats => "table_stats".into(),
        Op::MemTree => "mem_tree".into(),
        Op::ReadColumn { table, column } => format!("read column {table:?}.{column:?}"),
        Op::SearchColumns { table, pattern } => format!("search_column_names({table:?}, {pattern:?})"),
        Op::Concurrent(c) => format!("concurrent({} clients)", c.len()),
        Op::HttpQuery { endpoint, q } => format!("http {:?} {}", endpoint, rt::core::truncate(&q.sql, 60)),
        Op::HttpRawQuery { endpoint, sql } => format!("http {:?} raw {}", endpoint, rt::core::truncate(sql, 60)),
        Op::HttpMulti { endpoint, sqls } => format!("http {:?} multi x{} {}", endpoint, sqls.len(), rt::core::truncate(&sqls.join(" ;; "), 60)),
        Op::HttpColumns { table, .. } => format!("http /columns {table:?}"),
    }
}

/// C15: `SELECT "c" FROM "t"` equals the model column; an absent column reads all NULL.
fn read_column(env: &mut Env, table: &str, column: &str, ctx: &str) {
    let t = match env.model.tables.get(table) {
        Some(t) => t.clone(),
        None => return,
    };
    let sql = format!("SELECT {} FROM {}", quote_ident(column), quote_ident(table));
    match env.query(&sql) {
        Ok(o) => {
            let want = t.column(column);
            let got: Vec<Cell> = o.rows.iter().map(|r| r[0].clone()).collect();
            let mix = t.col_index(column).map(|i| t.type_mix(i)).unwrap_or((false, false, false));
            if got.len() != want.len() {
                env.violate("column:wrong_length", format!("[{ctx}] {sql}: {} rows, expected {}", got.len(), want.len()));
            } else if let Some(r) = (0..want.len()).find(|r| !cell_acceptable(&want[*r], &got[*r], mix)) {
                let absent = t.col_index(column).is_none();
                env.violate(
                    if matches!(&got[r], Cell::S(g) if is_lz4_garbage(g)) {
                        "cell:wrong_value:lz4_frame_bytes_read_as_string"
                    } else if absent {
                        "column:absent_reads_data"
                    } else if got[r].is_null() {
                        "column:value_became_null"
                    } else {
                        "column:wrong_data"
                    },
                    format!("[{ctx}] {sql}: row {r} got {}, expected {}", got[r].short(), want[r].short()),
                );
            } else {
                env.count("columns_read");
            }
        }
        Err(e) => env.violate(&format!("read_failed:{}:{}", e.kind(), stem(&e.msg())), format!("[{ctx}] {sql} -> {}: {}", e.kind(), e.msg())),
    }
}

fn search_columns(env: &mut Env, table: &str, pattern: &str, ctx: &str) {
    let t = match env.model.tables.get(table) {
        Some(t) => t.clone(),
        None => return,
    };
    let db = env.db();
    let (tb, pt) = (table.to_string(), pattern.to_string());
    let r = crate::env::catch(std::panic::AssertUnwindSafe(|| rt::block_on(db.search_column_names(&tb, &pt)).map_err(|e| e.to_string())));
    sched::progress();
    match r {
        Ok(Ok(got)) => {
            // (strings handed out by the database may not be UTF-8, see known findings)
            let mut got: Vec<String> = got.iter().map(|g| String::from_utf8_lossy(g.as_bytes()).into_owned()).collect();
            got.sort();
            let mut want: Vec<String> = t.cols.iter().filter(|c| c.contains(pattern)).cloned().collect();
            want.sort();
            if got != want {
                let gs: BTreeSet<_> = got.iter().cloned().collect();
                env.violate(
                    if got.iter().any(|c| is_lz4_garbage(c)) { GARBAGE_CLASS } else if gs.len() != got.len() { "catalogue:column_listed_twice" } else { "catalogue:search_mismatch" },
                    format!("[{ctx}] search_column_names({table:?}, {pattern:?}) = {got:?}, model {want:?}"),
                );
            } else {
                env.count("column_searches");
            }
        }
        Ok(Err(e)) => {
            let e = String::from_utf8_lossy(e.as_bytes()).into_owned();
            env.violate(&format!("read_failed:search:{}", stem(&e)), format!("[{ctx}] search_column_names({table:?}, {pattern:?}) failed: {e}"))
        }
        Err(p) => env.violate("search_panicked", format!("[{ctx}] search_column_names panicked: {}", panic_message(&p))),
    }
}

/// Run a sequential-history plan in one simulated execution.
pub fn run_history(plan: &Plan) -> RunResult {
    match &plan.alt {
        None => run_history_one(plan).0,
        Some(alt) => {
            // C02: two realisations of the same logical table and the same queries
            let (mut a, qa) = run_history_one(plan);
            let (b, qb) = run_history_one(alt);
            a.stats.executions += b.stats.executions;
            a.stats.steps += b.stats.steps;
            a.stats.sched_points += b.stats.sched_points;
            a.stats.ctx_switches += b.stats.ctx_switches;
            a.stats.timers_fired += b.stats.timers_fired;
            a.stats.sim_ns += b.stats.sim_ns;
            a.stats.fs_effects += b.stats.fs_effects;
            a.stats.signature ^= b.stats.signature.rotate_left(21);
            a.stats.nontrivial |= b.stats.nontrivial;
            for (k, v) in b.stats.counters {
                *a.stats.counters.entry(k).or_insert(0) += v;
            }
            for mut v in b.violations {
                v.detail = format!("[realisation B] {}", v.detail);
                a.violations.push(v);
            }
            if a.violations.is_empty() {
                if let Some(v) = crate::sql::differential(&qa, &qb) {
                    a.violations.push(v);
                }
                *a.stats.counters.entry("differential_query_pairs".into()).or_insert(0) += qa.len().min(qb.len()) as u64;
            }
            a
        }
    }
}

pub fn run_history_one(plan: &Plan) -> (RunResult, Vec<(String, Result<QOut, QErr>)>) {
    let t0 = std::time::Instant::now();
    FAILING_REQUESTS_EXPECTED.store(plan.knob("failing_requests_expected", 0) != 0, std::sync::atomic::Ordering::SeqCst);
    let out: Arc<Mutex<Option<HistoryOutcome>>> = Arc::new(Mutex::new(None));
    let out2 = out.clone();
    let p2 = plan.clone();
    let rep = sim::run_sim(plan.seed, &plan.sched, plan.max_steps, false, move || history_body(&p2, out2));
    dump_events(&rep);
    let ho = out.lock().unwrap().take();
    let mut violations = Vec::new();
    let mut stats = stats_from_report(&rep);
    let mut maintenance = 0;
    let mut layout = 0;
    let mut qlog = Vec::new();
    match ho {
        Some(h) => {
            qlog = h.query_log;
            violations = h.violations;
            stats.counters = h.counters;
            maintenance = h.maintenance;
            layout = h.layout_sig;
        }
        None => {}
    }
    add_end_violation(&rep, &mut violations);
    drop_echoes(&mut violations);
    merge_ctx_counters(&rep, &mut stats);
    stats.signature = layout ^ rep.sched_hash.rotate_left(17);
    stats.nontrivial = maintenance > 0;
    stats.wall_us = t0.elapsed().as_micros() as u64;
    (RunResult { violations, stats }, qlog)
}

pub fn stats_from_report(rep: &sim::SimReport) -> RunStats {
    RunStats {
        steps: rep.steps,
        sched_points: rep.sched_points,
        ctx_switches: rep.ctx_switches,
        timers_fired: rep.timers_fired,
        idle_firings: rep.idle_firings,
        eager_firings: rep.eager_firings,
        sim_ns: rep.sim_ns,
        fs_effects: rt::fs::effects_len(),
        events: rep.ctx.events.len() as u64,
        event_hash: rep.event_hash,
        sched_hash: rep.sched_hash,
        executions: 1,
        end: format!("{:?}", rep.end).chars().take(40).collect(),
        ..Default::default()
    }
}

pub fn merge_ctx_counters(rep: &sim::SimReport, stats: &mut RunStats) {
    for (k, v) in &rep.ctx.probes {
        *stats.counters.entry(format!("probe:{k}")).or_insert(0) += *v;
    }
    for (k, v) in &rep.ctx.sp_counts {
        *stats.counters.entry(format!("sp:{k}")).or_insert(0) += *v;
    }
    for (k, v) in &rep.ctx.sp_hits {
        *stats.counters.entry(format!("placed:{k}")).or_insert(0) += *v;
    }
    *stats.counters.entry("db_threads_spawned".into()).or_insert(0) += rep.ctx.spawned_db_threads;
}

/// A run that did not complete is a violation of its own (hang / engine failure), attributed to
/// the operation that was in flight.
pub fn add_end_violation(rep: &sim::SimReport, violations: &mut Vec<Violation>) {
    let pending = || {
        let mut last_invoke: Option<String> = None;
        for e in &rep.ctx.events {
            match e.kind {
                "op_invoke" | "q_invoke" => last_invoke = Some(e.detail.clone()),
                "op_return" | "q_return" => last_invoke = None,
                _ => {}
            }
        }
        last_invoke.unwrap_or_else(|| "<none>".into())
    };
    match &rep.end {
        EndState::Completed => {}
        EndState::Hang(why) => {
            // the panics that preceded the hang are violations in their own right
            push_panic_violations(&rep.ctx.panics, violations, "before the hang");
            let op = pending();
            let opk: String = op.split(|c: char| c == ' ' || c == '(').next().unwrap_or("").to_string();
            // (a panic the database caught itself fails one request; a thread that died is the likelier cause)
            let class = match crate::env::root_cause(&rep.ctx.panics) {
                Some(p) => format!("hang_after_panic:{}:{}:{opk}", file_of(&p.location), stem(&p.message)),
                None => format!("hang:{opk}:no_panic"),
            };
            violations.push(Violation { class, detail: format!("operation never returned: {op} ({why}); blocked threads: {:?}; panics before: {:?}", blocked_summary(rep), rep.ctx.panics.iter().map(|p| format!("{} at {}: {}", p.role, p.location, rt::core::truncate(&p.message, 120))).collect::<Vec<_>>()) });
        }
        EndState::Engine(msg) => {
            violations.push(Violation { class: format!("harness_error:{}", stem(msg)), detail: format!("engine/harness failure: {msg} (pending op: {})", pending()) });
        }
    }
}

fn blocked_summary(rep: &sim::SimReport) -> Vec<String> {
    rt::core::wait_reasons().into_iter().map(|(t, r)| format!("{}:{}", rep.ctx.roles.get(&t).cloned().unwrap_or_else(|| format!("t{t}")), r)).collect()
}

/// Panics of database threads as violations `panic:<file>:<message stem>`. A panic that is only
/// the echo of an earlier one (`PoisonError` on a lock the first panic poisoned) is not listed
/// separately.
pub fn push_panic_violations(panics: &[rt::core::PanicRec], violations: &mut Vec<Violation>, context: &str) {
    for (i, p) in panics.iter().enumerate() {
        if i > 0 && (p.message.contains("PoisonError") || p.message.contains("Canceled")) {
            continue;
        }
        if p.contained && FAILING_REQUESTS_EXPECTED.load(std::sync::atomic::Ordering::SeqCst) {
            continue;
        }
        let class = format!("panic:{}:{}", file_of(&p.location), stem(&p.message));
        if !violations.iter().any(|v| v.class == class) {
            violations.push(Violation { class, detail: format!("[{context}] thread {} panicked at {}: {}", p.role, p.location, rt::core::truncate(&p.message, 300)) });
        }
    }
}

/// A query that is cancelled because the worker executing it panicked is the echo of that panic,
/// which is reported under its own class.
pub fn drop_echoes(violations: &mut Vec<Violation>) {
    if violations.iter().any(|v| v.class.starts_with("panic:") || v.class.starts_with("hang_after_panic:")) {
        violations.retain(|v| !v.class.contains("read_failed:Canceled") && !v.class.starts_with("concurrent_query_failed:Canceled"));
    }
}

pub fn dump_events(rep: &sim::SimReport) {
    if std::env::var_os("LSIM_DUMP_EVENTS").is_some() {
        for e in &rep.ctx.events {
            eprintln!("  {:6} t{:<3} {:>14} {:12} {}", e.seq, e.task, e.t_ns, e.kind, rt::core::truncate(&e.detail, 160));
        }
        eprintln!("  roles: {:?}", rep.ctx.roles);
    }
}
