//! C09: crash at every file-system effect of a run (and inside recovery), recover, compare.
//! C14: damage stored files at rest (bit flips, truncation, extension, foreign bytes), reopen.

use crate::env::*;
use crate::exec::{self, add_end_violation, merge_ctx_counters, stats_from_report, ROOT};
use crate::model::*;
use crate::plan::*;
use crate::sched::SchedSpec;
use crate::sim::{self, EndState};
use locustdb_simrt as rt;
use rt::core::Rng;
use rt::fs::{Effect, Image};
use std::collections::BTreeMap;
use std::sync::{Arc, Mutex};

/// Content divergences get a crash-specific class; panics and hangs keep the class of their
/// site (so that an open finding is recognised wherever it strikes).
fn prefixed(prefix: &str, class: &str) -> String {
    if class.starts_with("panic:") || class.starts_with("hang") || class.starts_with("process_abort") || class.starts_with("harness_error") || class.starts_with("crash_") || class.starts_with("nested_") || class == GARBAGE_CLASS {
        class.to_string()
    } else {
        format!("{prefix}:{class}")
    }
}

#[derive(Default)]
struct Primary {
    images: Vec<(u64, Image)>,
    effects: Vec<Effect>,
    /// (request id, event seq of invoke, event seq of return or u64::MAX)
    reqs: Vec<(u32, u64, u64)>,
    /// model after n acknowledged requests
    models: Vec<Model>,
    violations: Vec<Violation>,
    counters: BTreeMap<String, u64>,
    final_image: Option<Image>,
    completed: bool,
}

fn path_class(p: &str) -> &'static str {
    if p.contains("/wal/") {
        "wal"
    } else if p.ends_with("/meta") || p.contains("/meta..") {
        "meta"
    } else if p.contains("/tables/") {
        "partition"
    } else {
        "dir"
    }
}

fn primary_body(plan: &Plan, out: Arc<Mutex<Primary>>) {
    let mut env = Env::new(ROOT, plan.opts.clone());
    rt::fs::with_state(|st| st.record_root = Some(ROOT.to_string()));
    let mut models = vec![Model::default()];
    let mut reqs: Vec<(u32, u64, u64)> = Vec::new();
    if env.open() {
        for (i, op) in plan.ops.iter().enumerate() {
            let ctx = format!("primary op#{i} {}", exec::op_name(op));
            match op {
                Op::Ingest(req) => {
                    let inv = rt::core::event_seq();
                    reqs.push((req.id, inv, u64::MAX));
                    // publish the in-flight request before the call so a hang still leaves the record
                    {
                        let mut o = out.lock().unwrap();
                        o.reqs = reqs.clone();
                    }
                    let before = env.model.clone();
                    env.ingest(req);
                    let ret = rt::core::event_seq();
                    if env.model.total_rows() != before.total_rows() || !req.tables.iter().any(|t| t.rows > 0) {
                        reqs.last_mut().unwrap().2 = ret;
                        models.push(env.model.clone());
                    }
                }
                Op::Flush => env.flush(),
                Op::Restart => {
                    if !env.restart() {
                        break;
                    }
                }
                Op::Sleep(ms) => {
                    rt::time::sleep(std::time::Duration::from_millis(*ms));
                    crate::sched::progress();
                }
                Op::CheckAll => env.check_all(&ctx),
                _ => {}
            }
            env.collect_panics(&ctx);
            {
                let mut o = out.lock().unwrap();
                o.reqs = reqs.clone();
                o.models = models.clone();
                o.violations = env.violations.clone();
            }
            if !env.violations.is_empty() {
                break;
            }
        }
        if env.db.is_some() {
            env.close();
        }
    }
    let mut o = out.lock().unwrap();
    o.reqs = reqs;
    o.models = models;
    o.violations = env.violations.clone();
    o.counters = env.counters.clone();
    o.completed = true;
    rt::fs::with_state(|st| {
        o.images = std::mem::take(&mut st.images);
        o.effects = st.effects.clone();
    });
    o.final_image = Some(rt::fs::snapshot(ROOT));
}

struct RecoverOut {
    violations: Vec<Violation>,
    nested: Vec<(u64, Image)>,
    recovered_as: Option<usize>,
    counters: BTreeMap<String, u64>,
}

/// Recover a crash image and judge it against the candidate models (acked / acked + in-flight).
fn recover_body(img: Image, opts: OptsSpec, candidates: Vec<Model>, extra: Option<Request>, label: String, out: Arc<Mutex<Option<RecoverOut>>>) {
    let root = "/sim/crash";
    rt::fs::install(&rt::fs::reroot(&img, ROOT, root));
    rt::fs::with_state(|st| st.record_root = Some(root.to_string()));
    let mut env = Env::new(root, opts);
    let mut recovered_as = None;
    let mut nested = Vec::new();
    if env.open() {
        // the recovery's own effects (stale log segments removed ...) are crash points too
        nested = rt::fs::with_state(|st| {
            st.record_root = None;
            std::mem::take(&mut st.images)
        });
        let mut all: Vec<Vec<Violation>> = Vec::new();
        let mut panicked = false;
        // panics of database threads seen while the content was read (a background flush dying,
        // say) are reported in their own right; which candidate the content matches is judged on
        // the content
        let mut panic_vs: Vec<Violation> = Vec::new();
        let mut unreadable = false;
        for (ci, cand) in candidates.iter().enumerate() {
            env.model = cand.clone();
            // a read during which a database thread panicked (a background flush dying, a query
            // racing it) says nothing about the content: read again, up to three times
            let mut c: Vec<Violation> = Vec::new();
            let mut clean_read = false;
            for _attempt in 0..3 {
                env.violations.clear();
                env.check_all(&format!("{label}: recovered content vs {}", if ci == 0 { "acknowledged requests" } else { "acknowledged + the request in flight" }));
                let (p, rest): (Vec<Violation>, Vec<Violation>) = env.violations.drain(..).partition(|v| v.class.starts_with("panic:"));
                let saw_panic = !p.is_empty();
                for v in p {
                    if !panic_vs.iter().any(|x| x.class == v.class) {
                        panic_vs.push(v);
                    }
                }
                c = rest;
                if !saw_panic || c.is_empty() {
                    clean_read = true;
                    break;
                }
            }
            if !clean_read {
                unreadable = true;
                break;
            }
            if c.is_empty() {
                recovered_as = Some(ci);
                break;
            }
            all.push(c);
        }
        if unreadable {
            // a database thread died every time the content was read: that, not a content
            // divergence, is what happened here
            panicked = true;
            env.violations = panic_vs.clone();
        }
        if panicked {
            exec::drop_echoes(&mut env.violations);
        } else if recovered_as.is_none() {
            // neither candidate matches: report the divergence from the last one tried (with an
            // in-flight request that is the richer state), mentioning the other
            let other: Vec<String> = if all.len() > 1 { all[0].iter().map(|v| v.detail.clone()).collect() } else { Vec::new() };
            let v = all.into_iter().last().unwrap_or_default();
            env.violations = v.into_iter().map(|mut x| {
                x.class = prefixed("crash_recovery", &x.class);
                if !other.is_empty() {
                    x.detail = format!("{} || and vs acknowledged only: {}", x.detail, other.join(" | "));
                }
                x
            }).collect();
            // (the panics seen meanwhile are reported in their own right)
            env.violations.extend(panic_vs.clone());
        } else {
            // (a) recovering the recovered directory again changes nothing
            if env.restart() {
                env.check_all(&format!("{label}: second recovery"));
                for v in env.violations.iter_mut() {
                    v.class = prefixed("crash_recovery_not_idempotent", &v.class);
                }
            }
            // (b) the recovered database keeps working: flush, one more request, flush, restart
            if env.violations.is_empty() && env.db.is_some() {
                env.flush();
                if let Some(req) = &extra {
                    env.ingest(req);
                }
                env.check_all(&format!("{label}: after flush + one more request"));
                if env.violations.is_empty() {
                    env.flush();
                    if env.restart() {
                        env.check_all(&format!("{label}: after another flush and restart"));
                    }
                }
                for v in env.violations.iter_mut() {
                    v.class = prefixed("crash_after_recovery", &v.class);
                }
            }
        }
        if recovered_as.is_some() {
            env.violations.extend(panic_vs);
        }
        if env.db.is_some() {
            env.close();
        }
    } else {
        for v in env.violations.iter_mut() {
            v.class = prefixed("crash_recovery", &v.class);
        }
    }
    env.collect_panics(&label);
    *out.lock().unwrap() = Some(RecoverOut { violations: env.violations.clone(), nested, recovered_as, counters: env.counters.clone() });
}

fn run_recovery(seed: u64, img: &Image, opts: &OptsSpec, candidates: &[Model], extra: Option<Request>, label: &str, stats: &mut RunStats) -> (Vec<Violation>, Vec<(u64, Image)>, Option<usize>) {
    let out: Arc<Mutex<Option<RecoverOut>>> = Arc::new(Mutex::new(None));
    let out2 = out.clone();
    let (img2, opts2, cands2, label2) = (img.clone(), opts.clone(), candidates.to_vec(), label.to_string());
    let mut rng = Rng::new(seed);
    let spec = SchedSpec { timer_eager_permille: 0, ..SchedSpec::generate(&mut rng) };
    let rep = sim::run_sim(seed, &spec, 1_500_000, false, move || recover_body(img2, opts2, cands2, extra, label2, out2));
    let r = out.lock().unwrap().take();
    stats.executions += 1;
    stats.steps += rep.steps;
    stats.sched_points += rep.sched_points;
    stats.ctx_switches += rep.ctx_switches;
    stats.timers_fired += rep.timers_fired;
    stats.idle_firings += rep.idle_firings;
    stats.sim_ns += rep.sim_ns;
    let mut violations = Vec::new();
    let mut nested = Vec::new();
    let mut as_ = None;
    if let Some(r) = r {
        violations = r.violations;
        nested = r.nested;
        as_ = r.recovered_as;
        for (k, v) in r.counters {
            *stats.counters.entry(format!("recovery:{k}")).or_insert(0) += v;
        }
    }
    let mut end_v = Vec::new();
    add_end_violation(&rep, &mut end_v);
    for mut v in end_v {
        if !matches!(rep.end, EndState::Completed) {
            v.detail = format!("[{label}] {}", v.detail);
        }
        violations.push(v);
    }
    exec::drop_echoes(&mut violations);
    (violations, nested, as_)
}

fn extra_request(plan: &Plan) -> Option<Request> {
    // one more request after recovery: same shape as the plan's first ingest, fresh id
    for op in &plan.ops {
        if let Op::Ingest(r) = op {
            let mut r2 = r.clone();
            r2.id = 9000;
            for t in r2.tables.iter_mut() {
                for c in t.cols.iter_mut() {
                    if c.name == "id" {
                        for (i, cell) in c.cells.iter_mut().enumerate() {
                            *cell = Cell::I(900_000_000 + i as i64);
                        }
                    }
                }
            }
            return Some(r2);
        }
    }
    None
}

pub fn run_crash(plan: &Plan) -> RunResult {
    let t0 = std::time::Instant::now();
    let out: Arc<Mutex<Primary>> = Arc::new(Mutex::new(Primary::default()));
    let out2 = out.clone();
    let p2 = plan.clone();
    let rep = sim::run_sim(plan.seed, &plan.sched, plan.max_steps, false, move || primary_body(&p2, out2));
    exec::dump_events(&rep);
    let mut stats = stats_from_report(&rep);
    let mut violations: Vec<Violation>;
    let prim = std::mem::take(&mut *out.lock().unwrap());
    violations = prim.violations.clone();
    stats.counters = prim.counters.clone();
    add_end_violation(&rep, &mut violations);
    exec::drop_echoes(&mut violations);
    merge_ctx_counters(&rep, &mut stats);
    let mut sig = rep.sched_hash;
    if !violations.is_empty() || !prim.completed {
        // a primary run that fails on its own is reported under the plain classes
        stats.wall_us = t0.elapsed().as_micros() as u64;
        stats.nontrivial = true;
        stats.signature = sig;
        return RunResult { violations, stats };
    }
    // ---- enumerate crash points
    let max_images = plan.knob("max_images", 160) as usize;
    let nested_per_image = plan.knob("nested_per_image", 2) as usize;
    let mut rng = Rng::new(plan.seed ^ 0xC4A5);
    let mut idx: Vec<usize> = (0..prim.images.len()).collect();
    let exhaustive = idx.len() <= max_images;
    if !exhaustive {
        rng.shuffle(&mut idx);
        idx.truncate(max_images);
        idx.sort();
    }
    *stats.counters.entry("crash:primary_runs".into()).or_insert(0) += 1;
    *stats.counters.entry(if exhaustive { "crash:primaries_fully_enumerated".into() } else { "crash:primaries_sampled".to_string() }).or_insert(0) += 1;
    let extra = extra_request(plan);
    let effect_of = |no: u64| prim.effects.iter().find(|e| e.no == no);
    'outer: for k in idx {
        let (eno, img) = &prim.images[k];
        let e = match effect_of(*eno) {
            Some(e) => e.clone(),
            None => continue,
        };
        // who was acknowledged / in flight when this effect happened
        let acked = prim.reqs.iter().filter(|r| r.2 != u64::MAX && r.2 <= e.event_seq).count();
        let inflight = prim.reqs.iter().any(|r| r.1 <= e.event_seq && (r.2 == u64::MAX || r.2 > e.event_seq));
        let mut cands = vec![prim.models[acked.min(prim.models.len() - 1)].clone()];
        if inflight && acked + 1 < prim.models.len() {
            cands.push(prim.models[acked + 1].clone());
        }
        let mut img2 = img.clone();
        let (cutf, cutb) = rt::fs::apply_crash_rule(&mut img2, &mut rng);
        *stats.counters.entry(format!("fault:crash_after:{}:{}", e.kind, path_class(&e.path))).or_insert(0) += 1;
        *stats.counters.entry("fault:crash_images_recovered".into()).or_insert(0) += 1;
        if cutf > 0 {
            *stats.counters.entry("fault:unsynced_tail_cut_files".into()).or_insert(0) += cutf;
            *stats.counters.entry("fault:unsynced_tail_cut_bytes".into()).or_insert(0) += cutb;
        }
        let label = format!("crash after effect #{} ({} {}{}) with {} request(s) acknowledged{}", e.no, e.kind, e.path, if e.path2.is_empty() { String::new() } else { format!(" -> {}", e.path2) }, acked, if inflight { " and one in flight" } else { "" });
        let (v, nested, as_) = run_recovery(plan.seed ^ (e.no.wrapping_mul(0x9E37)), &img2, &plan.opts, &cands, extra.clone(), &label, &mut stats);
        if let Some(a) = as_ {
            *stats.counters.entry(if a == 0 { "crash:recovered_as_acked".into() } else { "crash:recovered_with_inflight_request".to_string() }).or_insert(0) += 1;
        }
        sig = sig.rotate_left(5) ^ e.no ^ (e.kind.len() as u64) << 32;
        if !v.is_empty() {
            violations.extend(v);
            break 'outer;
        }
        // ---- depth 2: crash during the recovery itself
        let mut nidx: Vec<usize> = (0..nested.len()).collect();
        rng.shuffle(&mut nidx);
        nidx.truncate(nested_per_image);
        for ni in nidx {
            let (neno, nimg) = &nested[ni];
            let mut nimg2 = rt::fs::reroot(nimg, "/sim/crash", ROOT);
            rt::fs::apply_crash_rule(&mut nimg2, &mut rng);
            *stats.counters.entry("fault:crash_inside_recovery".into()).or_insert(0) += 1;
            let label2 = format!("{label}; then crash after effect #{neno} of the recovery");
            let (v2, _, _) = run_recovery(plan.seed ^ e.no.wrapping_mul(31) ^ neno.wrapping_mul(0x51ED), &nimg2, &plan.opts, &cands, extra.clone(), &label2, &mut stats);
            if !v2.is_empty() {
                violations.extend(v2.into_iter().map(|mut x| {
                    x.class = prefixed("nested", &x.class);
                    x
                }));
                break 'outer;
            }
        }
    }
    stats.fs_effects = prim.effects.len() as u64;
    stats.signature = sig;
    stats.nontrivial = true;
    stats.wall_us = t0.elapsed().as_micros() as u64;
    RunResult { violations, stats }
}

// ---------------------------------------------------------------------------------------------
// C14: rot
// ---------------------------------------------------------------------------------------------

#[derive(Clone, Debug)]
enum Damage {
    FlipBit(usize, u8),
    Truncate(usize),
    Append(Vec<u8>),
    Replace(Vec<u8>),
    Delete,
}

fn damage_name(d: &Damage) -> &'static str {
    match d {
        Damage::FlipBit(..) => "bit_flip",
        Damage::Truncate(_) => "truncate",
        Damage::Append(_) => "append",
        Damage::Replace(_) => "foreign_bytes",
        Damage::Delete => "delete",
    }
}

struct RotOut {
    outcome: String,
    violations: Vec<Violation>,
}

fn rot_body(img: Image, opts: OptsSpec, model: Model, label: String, out: Arc<Mutex<Option<RotOut>>>) {
    let root = "/sim/rot";
    rt::fs::install(&rt::fs::reroot(&img, ROOT, root));
    let mut env = Env::new(root, opts);
    env.model = model;
    let mut outcome = "same";
    if env.open() {
        env.check_all(&label);
        if !env.violations.is_empty() {
            // an error / panic reported to the reader is a rejection; different data is not
            let rejected = env.violations.iter().all(|v| v.class.starts_with("read_failed") || v.class.starts_with("panic:"));
            if rejected {
                outcome = "rejected_at_read";
                env.violations.clear();
            } else {
                outcome = "different";
                env.violations.retain(|v| !(v.class.starts_with("read_failed") || v.class.starts_with("panic:")));
                for v in env.violations.iter_mut() {
                    v.class = format!("rot_decoded_as_different_data:{}", v.class);
                }
            }
        }
        if env.db.is_some() {
            env.close();
        }
    } else {
        outcome = "rejected_at_open";
        env.violations.clear();
    }
    // panics of database threads while reading damaged files are rejections, not violations
    let _ = rt::core::with_ctx(|c| c.panics.len());
    *out.lock().unwrap() = Some(RotOut { outcome: outcome.to_string(), violations: env.violations.clone() });
}

pub fn run_rot(plan: &Plan) -> RunResult {
    let t0 = std::time::Instant::now();
    // primary: build a quiescent image
    let out: Arc<Mutex<Primary>> = Arc::new(Mutex::new(Primary::default()));
    let out2 = out.clone();
    let p2 = plan.clone();
    let rep = sim::run_sim(plan.seed, &plan.sched, plan.max_steps, false, move || primary_body(&p2, out2));
    let mut stats = stats_from_report(&rep);
    let prim = std::mem::take(&mut *out.lock().unwrap());
    let mut violations = prim.violations.clone();
    stats.counters = prim.counters.clone();
    add_end_violation(&rep, &mut violations);
    exec::drop_echoes(&mut violations);
    merge_ctx_counters(&rep, &mut stats);
    let mut sig = rep.sched_hash;
    let img = match (&prim.final_image, violations.is_empty() && prim.completed) {
        (Some(i), true) => i.clone(),
        _ => {
            stats.wall_us = t0.elapsed().as_micros() as u64;
            stats.nontrivial = true;
            stats.signature = sig;
            return RunResult { violations, stats };
        }
    };
    let model = prim.models.last().cloned().unwrap_or_default();
    let mut rng = Rng::new(plan.seed ^ 0x207);
    let mut files: Vec<(String, usize)> = img.files.iter().map(|(k, v)| (k.clone(), v.data.len())).collect();
    files.retain(|(k, _)| !k.contains("INCOMPLETE"));
    if files.is_empty() {
        stats.wall_us = t0.elapsed().as_micros() as u64;
        stats.signature = sig;
        return RunResult { violations, stats };
    }
    let files_per_run = plan.knob("rot_files", 1) as usize;
    let max_damage = plan.knob("rot_max_damage", 600) as usize;
    rng.shuffle(&mut files);
    // prefer one file of each class over time: seeded rotation
    let class_no = |k: &str| match path_class(k) {
        "wal" => 0usize,
        "meta" => 1,
        "partition" => 2,
        _ => 3,
    };
    files.sort_by_key(|(k, _)| class_no(k).wrapping_add(plan.seed as usize) % 3);
    for (path, len) in files.into_iter().take(files_per_run) {
        let mut damages: Vec<Damage> = Vec::new();
        for off in 0..len {
            for bit in 0..8u8 {
                damages.push(Damage::FlipBit(off, bit));
            }
        }
        for l in 0..len {
            damages.push(Damage::Truncate(l));
        }
        let orig = img.files[&path].data.as_ref().clone();
        for n in [1usize, 7, 64] {
            damages.push(Damage::Append(vec![0u8; n]));
            damages.push(Damage::Append((0..n).map(|_| rng.next_u64() as u8).collect()));
            damages.push(Damage::Append(orig[..n.min(orig.len())].to_vec()));
        }
        damages.push(Damage::Replace(Vec::new()));
        damages.push(Damage::Replace((0..len).map(|_| rng.next_u64() as u8).collect()));
        damages.push(Damage::Replace(b"not a locustdb file".to_vec()));
        let exhaustive = damages.len() <= max_damage;
        if !exhaustive {
            rng.shuffle(&mut damages);
            damages.truncate(max_damage);
        }
        *stats.counters.entry(format!("rot:files_{}:{}", if exhaustive { "fully_enumerated" } else { "sampled" }, path_class(&path))).or_insert(0) += 1;
        for d in damages {
            let mut img2 = img.clone();
            let mut bytes = orig.clone();
            let mut deleted = false;
            match &d {
                Damage::FlipBit(o, b) => bytes[*o] ^= 1 << b,
                Damage::Truncate(l) => bytes.truncate(*l),
                Damage::Append(x) => bytes.extend_from_slice(x),
                Damage::Replace(x) => bytes = x.clone(),
                Damage::Delete => deleted = true,
            }
            if deleted {
                img2.files.remove(&path);
            } else {
                let n = bytes.len();
                img2.files.insert(path.clone(), rt::fs::FileEntry { data: Arc::new(bytes), synced: n });
            }
            let label = format!("{} of {} ({:?})", damage_name(&d), path, match &d { Damage::FlipBit(o, b) => format!("byte {o} bit {b}"), Damage::Truncate(l) => format!("to {l} of {len} bytes"), Damage::Append(x) => format!("{} bytes", x.len()), Damage::Replace(x) => format!("{} bytes", x.len()), Damage::Delete => "file removed".into() });
            let out: Arc<Mutex<Option<RotOut>>> = Arc::new(Mutex::new(None));
            let out2 = out.clone();
            let (o2, m2, l2) = (plan.opts.clone(), model.clone(), label.clone());
            let seed = plan.seed ^ rng.next_u64();
            let spec = SchedSpec { timer_eager_permille: 0, ..SchedSpec::simple(seed) };
            let rep = sim::run_sim(seed, &spec, 1_500_000, false, move || rot_body(img2, o2, m2, l2, out2));
            stats.executions += 1;
            stats.steps += rep.steps;
            stats.sched_points += rep.sched_points;
            *stats.counters.entry(format!("fault:{}:{}", damage_name(&d), path_class(&path))).or_insert(0) += 1;
            let r = out.lock().unwrap().take();
            let mut outcome = r.as_ref().map(|r| r.outcome.clone()).unwrap_or_else(|| "incomplete".into());
            let mut vs = r.map(|r| r.violations).unwrap_or_default();
            match &rep.end {
                EndState::Completed => {}
                EndState::Hang(why) => {
                    outcome = "hang".into();
                    let cause = rep.ctx.panics.first().map(|p| format!("{}:{}", file_of(&p.location), stem(&p.message))).unwrap_or_else(|| "no_panic".into());
                    vs.push(Violation { class: format!("rot_hang:{}:{}", path_class(&path), cause), detail: format!("[{label}] opening / reading the damaged directory never returned ({why}); panics: {:?}", rep.ctx.panics.iter().map(|p| format!("{} at {}: {}", p.role, p.location, rt::core::truncate(&p.message, 100))).collect::<Vec<_>>()) });
                }
                EndState::Engine(m) => vs.push(Violation { class: format!("harness_error:{}", stem(m)), detail: format!("[{label}] {m}") }),
            }
            *stats.counters.entry(format!("rot:outcome:{outcome}")).or_insert(0) += 1;
            sig = sig.rotate_left(3) ^ (damage_name(&d).len() as u64) ^ ((outcome.len() as u64) << 8);
            if !vs.is_empty() {
                violations.extend(vs);
                stats.wall_us = t0.elapsed().as_micros() as u64;
                stats.nontrivial = true;
                stats.signature = sig;
                return RunResult { violations, stats };
            }
        }
    }
    stats.wall_us = t0.elapsed().as_micros() as u64;
    stats.nontrivial = true;
    stats.signature = sig;
    RunResult { violations, stats }
}
