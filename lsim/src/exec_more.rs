//! Ops beyond the basic history vocabulary: raw queries judged by well-formedness, concurrent
//! clients with placements at named sync points, and the oracles over the recorded history
//! (prefix consistency, liveness, canaries).

use crate::env::*;
use crate::model::*;
use crate::plan::*;
use crate::sched;
use locustdb::LocustDB;
use locustdb_simrt as rt;
use std::collections::{BTreeMap, BTreeSet};
use std::sync::atomic::Ordering;
use std::sync::{Arc, Mutex};

#[derive(Clone, Debug)]
pub enum OpResult {
    Acked,
    Done,
    Query(Result<QOut, QErr>),
    CallerPanicked(String),
}

#[derive(Clone, Debug)]
pub struct OpRecord {
    pub client: String,
    pub op: Op,
    pub invoke: u64,
    pub ret: u64,
    pub placed: Option<(String, bool)>,
    pub result: OpResult,
}

pub fn exec_other(env: &mut Env, op: &Op, ctx: &str) {
    match op {
        Op::RawQuery(sql) => {
            let r = env.query(sql);
            check_wellformed(env, sql, &r, ctx);
        }
        Op::Query(q) => crate::sql::exec_query(env, q, ctx),
        Op::Concurrent(clients) => exec_concurrent(env, clients, ctx),
        Op::HttpQuery { .. } | Op::HttpRawQuery { .. } | Op::HttpColumns { .. } | Op::HttpMulti { .. } => crate::http::exec_http(env, op, ctx),
        _ => env.count("op_unimplemented"),
    }
}

/// C12: a result is well-formed — one column per select item under the written name, equal
/// lengths, row view and column view describe the same cells, no more rows than LIMIT.
pub fn check_wellformed(env: &mut Env, sql: &str, r: &Result<QOut, QErr>, ctx: &str) {
    match r {
        Err(QErr::Panic(m)) => env.violate(&caller_panic_class("query_panicked_in_caller", m), format!("[{ctx}] run_query({sql:?}) panicked in the calling thread: {m}")),
        Err(QErr::Err(kind, msg)) => {
            env.count(&format!("query_err:{kind}"));
            if kind == "FatalError" {
                // "Some assumption was violated. This is a bug": the engine's own verdict
                env.count("query_err_fatal");
                let _ = msg;
            }
        }
        Ok(o) => {
            env.count("query_ok");
            if o.cols.len() != o.colnames.len() && !(o.cols.is_empty() && o.rows.is_empty()) {
                env.violate("malformed:column_count", format!("[{ctx}] {sql:?}: {} column names but {} columns", o.colnames.len(), o.cols.len()));
                return;
            }
            for (i, (n, cells)) in o.cols.iter().enumerate() {
                if n != &o.colnames[i] {
                    env.violate("malformed:column_name", format!("[{ctx}] {sql:?}: column {i} is named {n:?} in the column view, {:?} in colnames", o.colnames[i]));
                    return;
                }
                if o.had_rows && cells.len() != o.rows.len() {
                    env.violate("malformed:column_length", format!("[{ctx}] {sql:?}: column {n:?} has {} cells, the row view has {} rows", cells.len(), o.rows.len()));
                    return;
                }
            }
            if o.had_rows {
                for (r, row) in o.rows.iter().enumerate() {
                    if row.len() != o.colnames.len() {
                        env.violate("malformed:row_width", format!("[{ctx}] {sql:?}: row {r} has {} cells for {} columns", row.len(), o.colnames.len()));
                        return;
                    }
                    for (c, cell) in row.iter().enumerate() {
                        if !o.cols.is_empty() && &o.cols[c].1[r] != cell {
                            env.violate("malformed:views_differ", format!("[{ctx}] {sql:?}: row view and column view differ at row {r} column {c}: {} vs {}", cell.short(), o.cols[c].1[r].short()));
                            return;
                        }
                    }
                }
            }
            if let Some(l) = parse_limit(sql) {
                if o.rows.len() as u64 > l {
                    env.violate("malformed:more_rows_than_limit", format!("[{ctx}] {sql:?}: {} rows returned for LIMIT {l}", o.rows.len()));
                }
            }
        }
    }
}

pub fn parse_limit(sql: &str) -> Option<u64> {
    let up = sql.to_uppercase();
    let i = up.rfind(" LIMIT ")?;
    // (the word inside a quoted identifier or string is no clause: `FROM t0" LIMIT 2"OFFSET 0`)
    // ... nor is the word inside a comment (`oHERE --632 LIKE '_' LIMIT 5`, a mutated string)
    if up[..i].contains("--") || up[..i].contains("/*") {
        return None;
    }
    if up[..i].matches('"').count() % 2 == 1 || up[..i].matches('\'').count() % 2 == 1 || up[..i].matches('`').count() % 2 == 1 {
        return None;
    }
    let rest = up[i + 7..].trim();
    let tok: String = rest.chars().take_while(|c| c.is_ascii_digit()).collect();
    let after = rest[tok.len()..].trim_start();
    if tok.is_empty() || after.starts_with('.') {
        None
    } else if let Some(count) = after.strip_prefix(',') {
        // `LIMIT <offset>, <count>`
        let c: String = count.trim_start().chars().take_while(|c| c.is_ascii_digit()).collect();
        if c.is_empty() || count.trim_start()[c.len()..].trim_start().starts_with('.') {
            None
        } else {
            c.parse().ok()
        }
    } else {
        tok.parse().ok()
    }
}

struct ClientShared {
    records: Vec<OpRecord>,
    done_clients: usize,
    model_updates: Vec<Request>,
}

fn run_client_op(db: &Arc<LocustDB>, op: &Op) -> OpResult {
    match op {
        Op::Ingest(req) if req.path == IngestPath::Http => {
            rt::core::log("op_invoke", || format!("ingest req={} (http)", req.id));
            let r = crate::http::insert(db, req);
            rt::core::log("op_return", || format!("ingest req={}", req.id));
            match r {
                Ok(o) if o.status == 200 => OpResult::Acked,
                Ok(o) => OpResult::CallerPanicked(format!("/insert_bin answered {}", o.status)),
                Err(m) => OpResult::CallerPanicked(m),
            }
        }
        Op::HttpRawQuery { endpoint, sql } => {
            let out = crate::http::query_via(db, *endpoint, sql);
            // (the binary encodings carry no column order: take it from the statement)
            let hint: Vec<String> = sql.strip_prefix("SELECT ").and_then(|r| r.split(" FROM ").next()).map(|l| l.split(", ").map(|x| x.trim_matches('"').to_string()).collect()).unwrap_or_default();
            OpResult::Query(crate::http::as_query_result(*endpoint, &out, &hint))
        }
        Op::Ingest(req) => {
            rt::core::log("op_invoke", || format!("ingest req={}", req.id));
            let eb = crate::wire::event_buffer_for(req);
            let r = catch(std::panic::AssertUnwindSafe(|| rt::block_on(db.ingest_efficient(eb))));
            sched::progress();
            rt::core::log("op_return", || format!("ingest req={}", req.id));
            match r {
                Ok(()) => OpResult::Acked,
                Err(p) => OpResult::CallerPanicked(panic_message(&p)),
            }
        }
        Op::Flush => {
            rt::core::log("op_invoke", || "flush".into());
            let r = catch(std::panic::AssertUnwindSafe(|| db.force_flush()));
            sched::progress();
            rt::core::log("op_return", || "flush".into());
            match r {
                Ok(()) => OpResult::Done,
                Err(p) => OpResult::CallerPanicked(panic_message(&p)),
            }
        }
        Op::Evict => {
            rt::core::log("op_invoke", || "evict".into());
            let r = catch(std::panic::AssertUnwindSafe(|| db.evict_cache()));
            sched::progress();
            rt::core::log("op_return", || "evict".into());
            match r {
                Ok(_) => OpResult::Done,
                Err(p) => OpResult::CallerPanicked(panic_message(&p)),
            }
        }
        Op::RawQuery(sql) => OpResult::Query(run_query(db, sql)),
        Op::Stats => {
            rt::core::log("op_invoke", || "table_stats".into());
            let r = catch(std::panic::AssertUnwindSafe(|| rt::block_on(db.table_stats())));
            sched::progress();
            rt::core::log("op_return", || "table_stats".into());
            match r {
                Ok(Ok(_)) => OpResult::Done,
                Ok(Err(_)) => OpResult::CallerPanicked("table_stats: Canceled".into()),
                Err(p) => OpResult::CallerPanicked(panic_message(&p)),
            }
        }
        Op::MemTree => {
            rt::core::log("op_invoke", || "mem_tree".into());
            let r = catch(std::panic::AssertUnwindSafe(|| rt::block_on(db.mem_tree(2, None))));
            sched::progress();
            rt::core::log("op_return", || "mem_tree".into());
            match r {
                Ok(Ok(_)) => OpResult::Done,
                Ok(Err(_)) => OpResult::CallerPanicked("mem_tree: Canceled".into()),
                Err(p) => OpResult::CallerPanicked(panic_message(&p)),
            }
        }
        Op::Sleep(ms) => {
            rt::time::sleep(std::time::Duration::from_millis(*ms));
            sched::progress();
            OpResult::Done
        }
        _ => OpResult::Done,
    }
}

/// Run client op lists concurrently. Ops with a placement wait for their sync point; placements
/// whose sync point is never reached run at the end (fallback) so that every op is executed.
pub fn exec_concurrent(env: &mut Env, clients: &[ClientPlan], ctx: &str) {
    let db = env.db();
    let group = env.group;
    let shared = Arc::new(Mutex::new(ClientShared { records: Vec::new(), done_clients: 0, model_updates: Vec::new() }));
    let mut all_triggers: Vec<usize> = Vec::new();
    for cl in clients {
        let mut triggers: Vec<Option<usize>> = Vec::new();
        for co in &cl.ops {
            match &co.at {
                Some((label, nth, yields)) => {
                    let t = rt::core::trigger_new();
                    rt::core::with_ctx(|c| c.placements.push(rt::core::Placement { label: label.clone(), nth: *nth, trigger: t, yields: *yields }));
                    triggers.push(Some(t));
                    all_triggers.push(t);
                }
                None => triggers.push(None),
            }
        }
        let db2 = db.clone();
        let sh = shared.clone();
        let cl2 = cl.clone();
        rt::thread::spawn_harness(&format!("client:{}", cl.name), move || {
            rt::thread::set_current_group(group);
            for (i, co) in cl2.ops.iter().enumerate() {
                let mut placed = None;
                if let Some(t) = triggers[i] {
                    let by_label = rt::core::trigger_wait(t);
                    placed = Some((co.at.as_ref().unwrap().0.clone(), by_label));
                }
                let invoke = rt::core::event_seq();
                let result = run_client_op(&db2, &co.op);
                let ret = rt::core::event_seq();
                if let Some(t) = triggers[i] {
                    rt::core::trigger_done(t);
                }
                let mut g = sh.lock().unwrap();
                if let (Op::Ingest(req), OpResult::Acked) = (&co.op, &result) {
                    g.model_updates.push(req.clone());
                }
                g.records.push(OpRecord { client: cl2.name.clone(), op: co.op.clone(), invoke, ret, placed, result });
            }
            drop(db2);
            sh.lock().unwrap().done_clients += 1;
        });
    }
    // join: poll without keeping the clock from advancing (the scheduler knows the poller)
    let me = rt::core::me();
    rt::core::QUIESCE_INERT.store(false, Ordering::SeqCst);
    rt::core::QUIESCE_POLLER.store(me, Ordering::SeqCst);
    let mut hung = false;
    loop {
        if shared.lock().unwrap().done_clients == clients.len() {
            break;
        }
        if rt::core::QUIESCE_INERT.swap(false, Ordering::SeqCst) {
            // nothing can run: clients wait for sync points that were not reached (run them now)
            // or something is blocked for good
            let unarmed: Vec<usize> = rt::core::with_ctx(|c| all_triggers.iter().cloned().filter(|t| !c.triggers[*t].armed).collect());
            if unarmed.is_empty() {
                hung = true;
                break;
            }
            for t in unarmed {
                rt::core::trigger_arm(t, false);
            }
        }
        rt::core::yield_now();
    }
    rt::core::QUIESCE_POLLER.store(usize::MAX, Ordering::SeqCst);
    rt::core::with_ctx(|c| c.placements.clear());
    let (records, updates) = {
        let g = shared.lock().unwrap();
        (g.records.clone(), g.model_updates.clone())
    };
    if hung {
        let pending: Vec<String> = rt::core::wait_reasons().into_iter().map(|(t, r)| format!("t{t}:{r}")).collect();
        let cause = rt::core::with_ctx(|c| root_cause(&c.panics).map(|p| format!("hang_after_panic:{}:{}:concurrent", file_of(&p.location), stem(&p.message))));
        env.collect_panics(ctx);
        env.violate(&cause.unwrap_or_else(|| "hang:concurrent:no_panic".into()), format!("[{ctx}] concurrent clients never finished: every thread is blocked ({pending:?}); {} of their ops had returned", records.len()));
        return;
    }
    // acknowledged requests enter the model in acknowledgement order
    let mut acked: Vec<(u64, Request)> = Vec::new();
    for r in &records {
        if let (Op::Ingest(req), OpResult::Acked) = (&r.op, &r.result) {
            acked.push((r.ret, req.clone()));
        }
    }
    acked.sort_by_key(|a| a.0);
    let model_before = env.model.clone();
    for (_, req) in &acked {
        env.model.apply(req);
    }
    let _ = updates;
    env.count_n("concurrent_ops", records.len() as u64);
    for r in &records {
        if let Some((label, by_label)) = &r.placed {
            env.count(if *by_label { "placed_at_sync_point" } else { "placement_fallback_at_end" });
            if *by_label {
                env.count(&format!("placed:{label}"));
            }
        }
        if let OpResult::CallerPanicked(m) = &r.result {
            env.violate(&caller_panic_class("call_panicked_in_caller", m), format!("[{ctx}] client {} op {} panicked in the calling thread: {m}", r.client, crate::exec::op_name(&r.op)));
        }
    }
    env.collect_panics(ctx);
    check_prefix_consistency(env, &model_before, &records, ctx);
    let canary_rows = env.model.tables.get("canary").map(|t| t.rows.len() as i64);
    for r in &records {
        if let (Op::RawQuery(sql) | Op::HttpRawQuery { sql, .. }, OpResult::Query(q)) = (&r.op, &r.result) {
            if sql == "SELECT COUNT(1) FROM canary" {
                env.count("canaries");
                let ok = matches!(q, Ok(o) if o.rows.len() == 1 && Some(o.rows[0][0].clone()) == canary_rows.map(Cell::I));
                if !ok {
                    let prev = records.iter().filter(|x| x.client == r.client && x.ret <= r.invoke).last().map(|x| crate::exec::op_name(&x.op)).unwrap_or_default();
                    env.violate(
                        "canary_failed",
                        format!("[{ctx}] client {}: canary query after `{}` answered {:?}, expected COUNT = {:?}", r.client, prev, q.as_ref().map(|o| o.rows.clone()).map_err(|e| format!("{}: {}", e.kind(), e.msg())), canary_rows),
                    );
                }
                continue;
            }
            check_wellformed(env, sql, q, ctx);
        }
    }
}

/// ids carry their request: id = request * 1000 + index within the request's rows for the table
fn req_of(id: i64) -> u32 {
    (id / 1000) as u32
}

/// C10: a query that overlapped ingestion / flush / compaction / eviction returned a clean prefix.
fn check_prefix_consistency(env: &mut Env, before: &Model, records: &[OpRecord], ctx: &str) {
    // per table: requests (id, rows for this table, invoke, ret/acked)
    struct Rq {
        id: u32,
        rows: usize,
        invoke: u64,
        ret: u64,
        acked: bool,
    }
    let mut per_table: BTreeMap<String, Vec<Rq>> = BTreeMap::new();
    for r in records {
        if let Op::Ingest(req) = &r.op {
            for t in &req.tables {
                per_table.entry(t.table.clone()).or_default().push(Rq { id: req.id, rows: t.rows, invoke: r.invoke, ret: r.ret, acked: matches!(r.result, OpResult::Acked) });
            }
        }
    }
    for r in records {
        let (sql, out) = match (&r.op, &r.result) {
            (Op::RawQuery(sql) | Op::HttpRawQuery { sql, .. }, OpResult::Query(q)) => (sql, q),
            _ => continue,
        };
        // only the query forms the C10 generator emits (see props::prefix_query)
        let is_prefix_form = ["t0", "t1"].iter().any(|t| {
            [format!("SELECT id FROM \"{t}\""), format!("SELECT COUNT(1), SUM(id) FROM \"{t}\""), format!("SELECT nosuchcol, id FROM \"{t}\""), format!("SELECT v, id FROM \"{t}\"")].contains(sql)
        });
        if !is_prefix_form {
            continue;
        }
        let table = match sql.split(" FROM ").nth(1) {
            Some(t) => t.split_whitespace().next().unwrap_or("").trim_matches('"').to_string(),
            None => continue,
        };
        let out = match out {
            Ok(o) => o,
            Err(e) => {
                env.violate(&format!("concurrent_query_failed:{}:{}", e.kind(), stem(&e.msg())), format!("[{ctx}] client {} query {sql:?} failed while other clients were active: {}: {}", r.client, e.kind(), e.msg()));
                continue;
            }
        };
        let base_ids: Vec<i64> = before.tables.get(&table).map(|t| t.column("id").iter().filter_map(|c| if let Cell::I(i) = c { Some(*i) } else { None }).collect()).unwrap_or_default();
        let empty = Vec::new();
        let rqs = per_table.get(&table).unwrap_or(&empty);
        let must: BTreeSet<u32> = rqs.iter().filter(|q| q.acked && q.ret <= r.invoke).map(|q| q.id).collect();
        let may: BTreeSet<u32> = rqs.iter().filter(|q| q.invoke <= r.ret).map(|q| q.id).collect();
        let rows_of: BTreeMap<u32, usize> = rqs.iter().map(|q| (q.id, q.rows)).collect();
        env.count("prefix_queries_checked");
        if sql.contains("COUNT(1)") {
            // aggregate form: (count, sum of ids) must be those of base + some admissible set
            let (cnt, sum) = match out.rows.first() {
                Some(row) if row.len() >= 2 => (row[0].clone(), row[1].clone()),
                _ => {
                    if base_ids.is_empty() && must.is_empty() {
                        continue;
                    }
                    env.violate("prefix:aggregate_missing", format!("[{ctx}] {sql:?} returned no row"));
                    continue;
                }
            };
            let optional: Vec<u32> = may.difference(&must).cloned().collect();
            let mut ok = false;
            for mask in 0..(1u32 << optional.len().min(12)) {
                let mut c = base_ids.len() as i64;
                let mut s: i64 = base_ids.iter().sum();
                for id in must.iter().chain(optional.iter().enumerate().filter(|(i, _)| mask >> i & 1 == 1).map(|(_, id)| id)) {
                    let n = rows_of[id] as i64;
                    c += n;
                    s += (0..n).map(|i| *id as i64 * 1000 + i).sum::<i64>();
                }
                let cnt_ok = cnt == Cell::I(c) || (c == 0 && cnt == Cell::N);
                let sum_ok = sum == Cell::I(s) || (c == 0 && (sum == Cell::N || sum == Cell::I(0)));
                if cnt_ok && sum_ok {
                    ok = true;
                    break;
                }
            }
            if !ok {
                env.violate("prefix:aggregate_not_a_prefix", format!("[{ctx}] client {} {sql:?} = (count {}, sum {}) matches no set of whole requests: base rows {}, must include {:?}, may include {:?}", r.client, cnt.short(), sum.short(), base_ids.len(), must, optional));
            }
            continue;
        }
        // row form: the id column is the last select item
        let ids: Vec<i64> = out.rows.iter().filter_map(|row| if let Some(Cell::I(i)) = row.last() { Some(*i) } else { None }).collect();
        if ids.len() != out.rows.len() {
            env.violate("prefix:id_missing", format!("[{ctx}] {sql:?}: a returned row has no integer id: {:?}", out.rows.iter().take(5).collect::<Vec<_>>()));
            continue;
        }
        if ids.len() < base_ids.len() || ids[..base_ids.len()] != base_ids[..] {
            env.violate("prefix:old_rows_changed", format!("[{ctx}] client {} {sql:?}: the {} rows present before the concurrent phase are not returned first and unchanged (got {:?}…)", r.client, base_ids.len(), ids.iter().take(8).collect::<Vec<_>>()));
            continue;
        }
        let tail = &ids[base_ids.len()..];
        let mut seen: Vec<u32> = Vec::new();
        let mut i = 0;
        let mut bad = None;
        while i < tail.len() {
            let rq = req_of(tail[i]);
            let n = *rows_of.get(&rq).unwrap_or(&0);
            if seen.contains(&rq) {
                bad = Some(format!("rows of request {rq} appear twice / not contiguously"));
                break;
            }
            if n == 0 || !may.contains(&rq) {
                bad = Some(format!("row id {} belongs to no request that was invoked before the query returned", tail[i]));
                break;
            }
            if i + n > tail.len() || (0..n).any(|k| tail[i + k] != rq as i64 * 1000 + k as i64) {
                bad = Some(format!("request {rq} is included partially or out of order ({} rows expected from position {i})", n));
                break;
            }
            seen.push(rq);
            i += n;
        }
        if bad.is_none() {
            if let Some(m) = must.iter().find(|m| !seen.contains(m)) {
                bad = Some(format!("request {m} was acknowledged before the query started but its rows are missing"));
            }
        }
        if bad.is_none() {
            // order of included requests respects real time: if x was acknowledged before y was invoked, x comes first
            for (pi, x) in seen.iter().enumerate() {
                for y in &seen[..pi] {
                    let qx = rqs.iter().find(|q| q.id == *x).unwrap();
                    let qy = rqs.iter().find(|q| q.id == *y).unwrap();
                    if qx.acked && qx.ret <= qy.invoke {
                        bad = Some(format!("request {x} (acknowledged before request {y} was sent) is returned after it"));
                    }
                }
            }
        }
        if let Some(b) = bad {
            let class = if b.contains("twice") { "prefix:rows_twice" } else if b.contains("partially") { "prefix:request_partial" } else if b.contains("missing") { "prefix:acked_rows_missing" } else if b.contains("returned after") { "prefix:order" } else { "prefix:foreign_row" };
            env.violate(class, format!("[{ctx}] client {} {sql:?} (invoked at event {}, returned at {}): {b}; ids after the base rows: {:?}", r.client, r.invoke, r.ret, tail.iter().take(40).collect::<Vec<_>>()));
        }
    }
}
