//! Ops beyond the basic history vocabulary (queries against the evaluator, concurrency, HTTP).

use crate::env::*;
use crate::plan::*;

pub fn exec_other(env: &mut Env, op: &Op, _ctx: &str) {
    match op {
        _ => env.count("op_unimplemented"),
    }
}
