//! Seeded generation of table contents, drawn from the value classes the properties name.

use crate::model::*;
use locustdb_simrt::core::Rng;
use serde::{Deserialize, Serialize};

#[derive(Clone, Copy, Debug, PartialEq, Eq, Serialize, Deserialize, PartialOrd, Ord)]
pub enum ColClass {
    // integers
    IntU8,
    IntU8Offset,
    IntU16,
    IntU16Offset,
    IntU32,
    IntU32Offset,
    IntFull,
    IntNeg,
    IntMonotone,
    IntConst,
    // floats
    FloatDyadic,
    FloatSpecial,
    FloatF32,
    FloatWide,
    // strings
    StrLowCard,
    StrHighCard,
    StrHexLower,
    StrHexUpper,
    StrLong,
    /// long and highly compressible: stored LZ4-compressed in memory
    StrLongRepetitive,
    StrUnicode,
    StrEmptyish,
    // mixtures
    MixIntFloat,
    MixAny,
    AllNull,
}

pub const INT_CLASSES: &[ColClass] = &[
    ColClass::IntU8,
    ColClass::IntU8Offset,
    ColClass::IntU16,
    ColClass::IntU16Offset,
    ColClass::IntU32,
    ColClass::IntU32Offset,
    ColClass::IntFull,
    ColClass::IntNeg,
    ColClass::IntMonotone,
    ColClass::IntConst,
];
pub const FLOAT_CLASSES: &[ColClass] = &[ColClass::FloatDyadic, ColClass::FloatSpecial, ColClass::FloatF32, ColClass::FloatWide];
pub const STR_CLASSES: &[ColClass] = &[
    ColClass::StrLowCard,
    ColClass::StrHighCard,
    ColClass::StrHexLower,
    ColClass::StrHexUpper,
    ColClass::StrLong,
    ColClass::StrLongRepetitive,
    ColClass::StrUnicode,
    ColClass::StrEmptyish,
];
/// string classes that do not trip the open findings in Column::decode (hex-packed and
/// LZ4-compressed packed strings cannot be compacted, see known_findings.json)
pub const STR_CLASSES_MILD: &[ColClass] = &[ColClass::StrLowCard, ColClass::StrLowCard, ColClass::StrUnicode, ColClass::StrEmptyish];
/// packed (non-dictionary) string columns are fine as long as nothing compacts them
pub const STR_CLASSES_NO_COMPACTION: &[ColClass] = &[ColClass::StrLowCard, ColClass::StrHighCard, ColClass::StrLong, ColClass::StrUnicode, ColClass::StrEmptyish, ColClass::StrHexLower, ColClass::StrHexUpper, ColClass::StrLongRepetitive];

static PACKED_OK: std::sync::atomic::AtomicBool = std::sync::atomic::AtomicBool::new(false);
/// set when the plan's options rule compaction out
pub fn set_packed_strings_ok(v: bool) {
    PACKED_OK.store(v, std::sync::atomic::Ordering::SeqCst);
}

static SPICY: std::sync::atomic::AtomicBool = std::sync::atomic::AtomicBool::new(false);
/// spicy plans may draw the value classes that trigger open findings; mild plans avoid them so
/// that the bulk of the exploration is not spent re-finding the same defects
pub fn set_spicy(v: bool) {
    SPICY.store(v, std::sync::atomic::Ordering::SeqCst);
}
pub fn spicy() -> bool {
    SPICY.load(std::sync::atomic::Ordering::SeqCst)
}

impl ColClass {
    pub fn is_int(self) -> bool {
        INT_CLASSES.contains(&self)
    }
    pub fn is_float(self) -> bool {
        FLOAT_CLASSES.contains(&self)
    }
    pub fn is_str(self) -> bool {
        STR_CLASSES.contains(&self)
    }
}

#[derive(Clone, Copy, Debug, PartialEq, Eq, Serialize, Deserialize, PartialOrd, Ord)]
pub enum NullPattern {
    None,
    Some,
    Most,
    All,
    Leading,
    Trailing,
    Alternating,
}

pub const NULL_PATTERNS: &[NullPattern] = &[
    NullPattern::None,
    NullPattern::None,
    NullPattern::None,
    NullPattern::Some,
    NullPattern::Some,
    NullPattern::Most,
    NullPattern::All,
    NullPattern::Leading,
    NullPattern::Trailing,
    NullPattern::Alternating,
];

/// lengths at bitmap byte boundaries and around streaming batch sizes
pub const SPECIAL_LENS: &[usize] = &[1, 2, 7, 8, 9, 15, 16, 17, 63, 64, 65];

pub fn gen_len(rng: &mut Rng, max: usize) -> usize {
    let n = match rng.below(10) {
        0..=2 => *rng.pick(SPECIAL_LENS),
        3..=6 => 1 + rng.below(12) as usize,
        _ => 1 + rng.below(max.max(1) as u64) as usize,
    };
    n.min(max.max(1))
}

fn word(rng: &mut Rng, min: usize, max: usize) -> String {
    let n = min + rng.below((max - min + 1) as u64) as usize;
    (0..n).map(|_| (b'a' + rng.below(26) as u8) as char).collect()
}

pub fn gen_value(rng: &mut Rng, class: ColClass, row_seq: u64, salt: u64) -> Cell {
    match class {
        ColClass::IntU8 => Cell::I(edge_or(rng, &[0, 1, 127, 128, 254, 255], 256)),
        ColClass::IntU8Offset => Cell::I(1_000_000 + rng.below(256) as i64),
        ColClass::IntU16 => Cell::I(edge_or(rng, &[0, 255, 256, 65534, 65535], 65536)),
        ColClass::IntU16Offset => Cell::I(-40_000 + rng.below(65536) as i64),
        ColClass::IntU32 => Cell::I(edge_or(rng, &[0, 65535, 65536, 4294967294, 4294967295], 4294967296)),
        ColClass::IntU32Offset => Cell::I(10_000_000_000 + rng.below(4294967296) as i64),
        ColClass::IntFull => Cell::I(match rng.below(8) {
            0 => i64::MIN,
            1 => i64::MAX - 1,
            2 => i64::MIN + 1,
            3 => 0,
            4 => -1,
            _ => rng.next_u64() as i64,
        }
        .min(i64::MAX - 1)),
        ColClass::IntNeg => Cell::I(-(rng.below(1000) as i64) - 1),
        ColClass::IntMonotone => Cell::I(1_600_000_000 + row_seq as i64 * 7 + if rng.below(20) == 0 { -3 } else { rng.below(5) as i64 }),
        ColClass::IntConst => Cell::I(42 + (salt % 7) as i64),
        ColClass::FloatDyadic => {
            let k = rng.range(-(1 << 20), 1 << 20);
            Cell::f(k as f64 / 1024.0)
        }
        ColClass::FloatSpecial => Cell::f(*rng.pick(&[
            0.0,
            -0.0,
            f64::MIN_POSITIVE,
            5e-324,
            -5e-324,
            f64::INFINITY,
            f64::NEG_INFINITY,
            f64::MAX,
            f64::MIN,
            1.0,
            -1.0,
            0.1,
            1e300,
            -1e-300,
            // NaNs other than the reserved NULL marker (0x7ffaaaaaaaaaaaaa) are ordinary values
            f64::NAN,
            f64::from_bits(0x7ff8_0000_0000_0001),
            f64::from_bits(0xfff8_0000_0000_0000),
            f64::from_bits(0x7ff0_0000_0000_0001),
        ])),
        ColClass::FloatF32 => Cell::f((rng.range(-100000, 100000) as f32 / 8.0) as f64),
        ColClass::FloatWide => {
            let x = f64::from_bits(rng.next_u64());
            if x.is_nan() {
                Cell::f(1.5)
            } else {
                Cell::f(x)
            }
        }
        ColClass::StrLowCard => Cell::S(format!("k{}", rng.below(4))),
        ColClass::StrHighCard => Cell::S(format!("{}-{}", word(rng, 1, 6), row_seq)),
        ColClass::StrHexLower => {
            let n = 2 * (1 + rng.below(6) as usize);
            Cell::S((0..n).map(|_| *rng.pick(&['0', '1', '2', '3', '4', '5', '6', '7', '8', '9', 'a', 'b', 'c', 'd', 'e', 'f'])).collect())
        }
        ColClass::StrHexUpper => {
            let n = 2 * (1 + rng.below(6) as usize);
            Cell::S((0..n).map(|_| *rng.pick(&['0', '1', '2', '3', '4', '5', '6', '7', '8', '9', 'A', 'B', 'C', 'D', 'E', 'F'])).collect())
        }
        ColClass::StrLong => {
            let n = *rng.pick(&[254usize, 255, 256, 300, 1000]);
            Cell::S(word(rng, n, n))
        }
        ColClass::StrLongRepetitive => {
            let n = *rng.pick(&[254usize, 255, 256, 300, 1000]);
            let c = (b'a' + rng.below(26) as u8) as char;
            Cell::S(std::iter::repeat(c).take(n).collect())
        }
        ColClass::StrUnicode => Cell::S(rng.pick(&["é", "日本語", "naïve", "🙂🙂", "a\u{0301}", "Ω≈ç√", "q'uote", "per%cent_", ""]).to_string()),
        ColClass::StrEmptyish => Cell::S(rng.pick(&["", "", " ", "a", "0", "null", "NULL"]).to_string()),
        ColClass::MixIntFloat => {
            if rng.below(2) == 0 {
                Cell::I(rng.range(-1000, 1000))
            } else {
                Cell::f(rng.range(-4000, 4000) as f64 / 4.0)
            }
        }
        ColClass::MixAny => match rng.below(4) {
            0 => Cell::I(rng.range(-1000, 1000)),
            1 => Cell::f(rng.range(-4000, 4000) as f64 / 4.0),
            2 => Cell::S(word(rng, 0, 5)),
            _ => Cell::N,
        },
        ColClass::AllNull => Cell::N,
    }
}

fn edge_or(rng: &mut Rng, edges: &[i64], modulus: u64) -> i64 {
    if rng.below(3) == 0 {
        *rng.pick(edges)
    } else {
        rng.below(modulus) as i64
    }
}

pub fn null_mask(rng: &mut Rng, pat: NullPattern, n: usize) -> Vec<bool> {
    match pat {
        NullPattern::None => vec![false; n],
        NullPattern::All => vec![true; n],
        NullPattern::Some => (0..n).map(|_| rng.below(4) == 0).collect(),
        NullPattern::Most => (0..n).map(|_| rng.below(8) != 0).collect(),
        NullPattern::Leading => {
            let k = rng.below(n as u64 + 1) as usize;
            (0..n).map(|i| i < k).collect()
        }
        NullPattern::Trailing => {
            let k = rng.below(n as u64 + 1) as usize;
            (0..n).map(|i| i >= k).collect()
        }
        NullPattern::Alternating => (0..n).map(|i| i % 2 == 1).collect(),
    }
}

pub fn gen_cells(rng: &mut Rng, class: ColClass, pat: NullPattern, n: usize, row_base: u64) -> Vec<Cell> {
    let mask = if class == ColClass::AllNull { vec![true; n] } else { null_mask(rng, pat, n) };
    let salt = rng.next_u64();
    (0..n)
        .map(|i| {
            if mask[i] {
                Cell::N
            } else {
                gen_value(rng, class, row_base + i as u64, salt)
            }
        })
        .collect()
}

/// A column of a generated table schema.
#[derive(Clone, Debug, PartialEq, Serialize, Deserialize)]
pub struct ColSpec {
    pub name: String,
    pub class: ColClass,
    pub nulls: NullPattern,
}

pub const PLAIN_NAMES: &[&str] = &["ca", "cb", "cc", "cd", "ce", "val", "x1", "zz"];

/// Hostile column names (C13/C15): case pairs, non-ASCII, > 64 bytes, prefixes of one another,
/// names sorting before / after everything else.
pub fn hostile_col_names() -> Vec<String> {
    let mut v: Vec<String> = [
        "a", "A", "ab", "abc", "Abc", "abC", "z", "zzzz", "_", "__", "0", "00", "é", "ñandú", "日本", "col name", "col.name", "col-name", "x/y", "UPPER", "upper",
        "~tilde", "!bang", "a_", "a__b",
    ]
    .iter()
    .map(|s| s.to_string())
    .collect();
    let long = |n: usize, salt: u64| -> String {
        if spicy() {
            "l".repeat(n)
        } else {
            let mut r = Rng::new(0xC01 + salt);
            (0..n).map(|_| (b'a' + r.below(26) as u8) as char).collect()
        }
    };
    let l64 = long(64, 1);
    v.push(format!("{l64}y"));
    v.push(l64.clone());
    v.push(format!("{l64}x"));
    v.push(long(200, 2));
    v
}

/// Hostile table names (C15).
pub fn hostile_table_names() -> Vec<String> {
    let mut v: Vec<String> = [
        "t", "T", "tab", "Tab", "TAB", "t.1", "t..1", ".hidden", "..", "../x", "a/b", "a\\b", "-dash", "--", "sp ace", "ü", "表", "t_1", "t-1", "%41", "t%2f", "con", "_meta", "x.part",
    ]
    .iter()
    .map(|s| s.to_string())
    .collect();
    // long names: pseudo-random letters (a run of one letter is stored LZ4-compressed in the
    // catalogue tables and trips the open Column::decode finding; only spicy plans use that)
    let long = |n: usize, salt: u64| -> String {
        if spicy() {
            "n".repeat(n)
        } else {
            let mut r = Rng::new(0x10E6 + salt);
            (0..n).map(|_| (b'a' + r.below(26) as u8) as char).collect()
        }
    };
    v.push(long(189, 1));
    v.push(long(190, 2));
    v.push(long(300, 3));
    let l = long(299, 3);
    v.push(format!("N{}", l));
    v
}

pub fn pick_class(rng: &mut Rng) -> ColClass {
    match rng.below(20) {
        0..=7 => *rng.pick(INT_CLASSES),
        8..=11 => *rng.pick(FLOAT_CLASSES),
        12..=17 => {
            if spicy() {
                *rng.pick(STR_CLASSES)
            } else if PACKED_OK.load(std::sync::atomic::Ordering::SeqCst) {
                *rng.pick(STR_CLASSES_NO_COMPACTION)
            } else {
                *rng.pick(STR_CLASSES_MILD)
            }
        }
        18 => ColClass::MixIntFloat,
        _ => {
            if rng.below(2) == 0 {
                ColClass::MixAny
            } else {
                ColClass::AllNull
            }
        }
    }
}

pub fn pick_repr(rng: &mut Rng) -> Repr {
    match rng.below(10) {
        0..=5 => Repr::Typed,
        6..=7 => Repr::Sparse,
        8 => Repr::ShortDense,
        _ => Repr::Mixed,
    }
}

/// Generate one table batch for a schema. `cols` is the subset of the schema this batch carries
/// (at least one column must end up non-null, otherwise an `id` column is forced in).
pub fn gen_table_batch(rng: &mut Rng, table: &str, schema: &[ColSpec], rows: usize, row_base: u64, id_base: Option<i64>, subset: bool) -> TableBatch {
    let mut cols = Vec::new();
    if let Some(b) = id_base {
        cols.push(ColBatch { name: "id".into(), cells: (0..rows).map(|i| Cell::I(b + i as i64)).collect(), repr: Repr::Typed });
    }
    for cs in schema {
        if subset && rng.below(3) == 0 {
            continue;
        }
        // 15 %: the column receives another class this time (type mixing across batches)
        let class = if rng.below(100) < 15 { pick_class(rng) } else { cs.class };
        let cells = gen_cells(rng, class, cs.nulls, rows, row_base);
        cols.push(ColBatch { name: cs.name.clone(), cells, repr: pick_repr(rng) });
    }
    let any_value = cols.iter().any(|c| c.cells.iter().any(|x| !x.is_null()));
    if !any_value {
        // the engine needs at least one real column to know the batch length
        let name = if schema.is_empty() { "ca".to_string() } else { schema[0].name.clone() };
        cols.retain(|c| c.name != name);
        cols.push(ColBatch { name, cells: (0..rows).map(|i| Cell::I(row_base as i64 + i as i64)).collect(), repr: Repr::Typed });
    }
    TableBatch { table: table.to_string(), rows, cols }
}

pub fn gen_schema(rng: &mut Rng, ncols: usize, names: &[String]) -> Vec<ColSpec> {
    let mut pool: Vec<String> = names.to_vec();
    rng.shuffle(&mut pool);
    pool.truncate(ncols);
    pool.into_iter().map(|name| ColSpec { name, class: pick_class(rng), nulls: *rng.pick(NULL_PATTERNS) }).collect()
}
