//! C17: the HTTP handlers driven in-process under the simulator.
//!
//! The real actix `App` (the handlers, extractors, state and payload limit `server::run` registers,
//! via the guarded hook `server::verif_configure`) is built on the calling simulated thread and
//! called through actix's `Service` interface: the request goes through routing, the JSON / bytes
//! extractors, the handler, `LocustDB::run_query` / `ingest_efficient` on the shared
//! `Arc<LocustDB>` (whose worker threads are simulated threads), the response encoders and the
//! status mapping. What is stubbed is the socket, the HTTP/1 codec and the actix worker runtime:
//! each simulated client thread plays one actix worker (actix builds one `App` per worker too).
use crate::env::*;
use crate::model::Cell;
use crate::plan::{HttpEndpoint, Op};
use actix_web::body::to_bytes;
use actix_web::dev::Service;
use actix_web::{test, App};
use locustdb::LocustDB;
use locustdb_serialization::api::{AnyVal, Column, MultiQueryResponse};
use locustdb_simrt as rt;
use std::panic::AssertUnwindSafe;
use std::sync::Arc;

#[derive(Clone, Debug)]
pub struct HttpOut {
    pub status: u16,
    pub body: Vec<u8>,
}

pub enum Body {
    Json(serde_json::Value),
    Bytes(Vec<u8>),
}

/// One request through the real service. Err = the handler (or anything below it) panicked.
pub fn call(db: &Arc<LocustDB>, path: &str, body: Body) -> Result<HttpOut, String> {
    rt::core::log("http_invoke", || path.to_string());
    let db = db.clone();
    let r = catch(AssertUnwindSafe(|| {
        rt::block_on(async move {
            let app = test::init_service(App::new().configure(|c| locustdb::server::verif_configure(c, db))).await;
            let req = match body {
                Body::Json(v) => test::TestRequest::post().uri(path).set_json(v).to_request(),
                Body::Bytes(b) => test::TestRequest::post().uri(path).set_payload(b).to_request(),
            };
            match app.call(req).await {
                Ok(resp) => {
                    let status = resp.status().as_u16();
                    let body = to_bytes(resp.into_body()).await.map(|b| b.to_vec()).unwrap_or_default();
                    HttpOut { status, body }
                }
                Err(e) => {
                    // an extractor or the router refused the request: actix answers with the
                    // error's own response
                    let resp = e.error_response();
                    let status = resp.status().as_u16();
                    let body = to_bytes(resp.into_body()).await.map(|b| b.to_vec()).unwrap_or_default();
                    HttpOut { status, body }
                }
            }
        })
    }));
    crate::sched::progress();
    let out = r.map_err(|p| rt::core::truncate(&panic_message(&p), 300));
    rt::core::log("http_return", || match &out {
        Ok(o) => format!("{} {} bytes", o.status, o.body.len()),
        Err(m) => format!("panicked: {}", rt::core::truncate(m, 80)),
    });
    out
}

pub fn insert(db: &Arc<LocustDB>, req: &crate::model::Request) -> Result<HttpOut, String> {
    call(db, "/insert_bin", Body::Bytes(crate::wire::wire_bytes(req)))
}

fn json_cell(v: &serde_json::Value) -> Result<Cell, String> {
    Ok(match v {
        serde_json::Value::Null => Cell::N,
        serde_json::Value::Number(n) => {
            if let Some(i) = n.as_i64() {
                Cell::I(i)
            } else if n.is_u64() {
                return Err(format!("integer {n} does not fit i64"));
            } else {
                Cell::F(n.as_f64().ok_or("number is no f64")?.to_bits())
            }
        }
        serde_json::Value::String(s) => Cell::S(s.clone()),
        other => return Err(format!("unexpected JSON value {other}")),
    })
}

fn strs(v: &serde_json::Value) -> Result<Vec<String>, String> {
    v.as_array().ok_or("colnames is no array")?.iter().map(|x| x.as_str().map(|s| s.to_string()).ok_or_else(|| "column name is no string".to_string())).collect()
}

/// What an endpoint returned, decoded: column names in order when the encoding carries them, the
/// rows when it carries rows, the columns by name when it carries columns.
#[derive(Debug, Default)]
pub struct Decoded {
    pub colnames: Option<Vec<String>>,
    pub rows: Option<Vec<Vec<Cell>>>,
    pub cols: Option<std::collections::BTreeMap<String, Vec<Cell>>>,
}

fn decode_json_cols(v: &serde_json::Value) -> Result<Decoded, String> {
    let colnames = strs(v.get("colnames").ok_or("no colnames")?)?;
    let mut cols = std::collections::BTreeMap::new();
    for (k, xs) in v.get("cols").and_then(|c| c.as_object()).ok_or("no cols object")? {
        // a column holding only NULLs travels as its length (BasicTypeColumn::Null(n), like the binary Column::Null)
        if let Some(n) = xs.as_u64() {
            cols.insert(k.clone(), vec![Cell::N; n as usize]);
            continue;
        }
        let cells: Result<Vec<Cell>, String> = xs.as_array().ok_or("column is no array")?.iter().map(json_cell).collect();
        cols.insert(k.clone(), cells?);
    }
    Ok(Decoded { colnames: Some(colnames), rows: None, cols: Some(cols) })
}

fn api_column_cells(c: &Column) -> Result<Vec<Cell>, String> {
    let null_bits = locustdb_compression_utils::xor_float::NULL.to_bits();
    let fl = |x: f64| if x.to_bits() == null_bits { Cell::N } else { Cell::F(x.to_bits()) };
    Ok(match c {
        Column::Float(xs) => xs.iter().map(|x| fl(*x)).collect(),
        Column::Int(xs) => xs.iter().map(|x| Cell::I(*x)).collect(),
        Column::String(xs) => xs.iter().map(|s| Cell::S(s.clone())).collect(),
        Column::Null(n) => vec![Cell::N; *n],
        Column::Mixed(xs) => xs
            .iter()
            .map(|v| match v {
                AnyVal::Int(i) => Cell::I(*i),
                AnyVal::Float(f) => Cell::F(f.to_bits()),
                AnyVal::Str(s) => Cell::S(s.clone()),
                AnyVal::Null => Cell::N,
            })
            .collect(),
        Column::Xor(bytes) => locustdb_compression_utils::xor_float::double::decode(bytes).map_err(|e| format!("xor column does not decode: {e:?}"))?.into_iter().map(fl).collect(),
    })
}

pub fn decode(endpoint: HttpEndpoint, body: &[u8]) -> Result<Decoded, String> {
    match endpoint {
        HttpEndpoint::Query => {
            let v: serde_json::Value = serde_json::from_slice(body).map_err(|e| format!("body is no JSON: {e}"))?;
            let colnames = strs(v.get("colnames").ok_or("no colnames")?)?;
            let mut rows = Vec::new();
            for r in v.get("rows").and_then(|r| r.as_array()).ok_or("no rows array")? {
                let cells: Result<Vec<Cell>, String> = r.as_array().ok_or("row is no array")?.iter().map(json_cell).collect();
                rows.push(cells?);
            }
            Ok(Decoded { colnames: Some(colnames), rows: Some(rows), cols: None })
        }
        HttpEndpoint::QueryCols => {
            let v: serde_json::Value = serde_json::from_slice(body).map_err(|e| format!("body is no JSON: {e}"))?;
            decode_json_cols(&v)
        }
        HttpEndpoint::MultiJson => {
            let v: serde_json::Value = serde_json::from_slice(body).map_err(|e| format!("body is no JSON: {e}"))?;
            let a = v.as_array().ok_or("body is no array")?;
            if a.len() != 1 {
                return Err(format!("{} responses for 1 query", a.len()));
            }
            decode_json_cols(&a[0])
        }
        HttpEndpoint::MultiBin | HttpEndpoint::MultiBinXor => {
            let m = catch(AssertUnwindSafe(|| MultiQueryResponse::deserialize(body))).map_err(|p| format!("client-side decoding panicked: {}", panic_message(&p)))?.map_err(|e| format!("binary body does not decode: {e}"))?;
            if m.responses.len() != 1 {
                return Err(format!("{} responses for 1 query", m.responses.len()));
            }
            let mut cols = std::collections::BTreeMap::new();
            for (k, c) in &m.responses[0].columns {
                cols.insert(k.clone(), api_column_cells(c)?);
            }
            Ok(Decoded { colnames: None, rows: None, cols: Some(cols) })
        }
    }
}

/// Every response of a /multi_query_cols answer, in the order sent.
pub fn decode_multi(endpoint: HttpEndpoint, body: &[u8]) -> Result<Vec<Decoded>, String> {
    match endpoint {
        HttpEndpoint::MultiJson => {
            let v: serde_json::Value = serde_json::from_slice(body).map_err(|e| format!("body is no JSON: {e}"))?;
            v.as_array().ok_or("body is no array")?.iter().map(decode_json_cols).collect()
        }
        HttpEndpoint::MultiBin | HttpEndpoint::MultiBinXor => {
            let m = catch(AssertUnwindSafe(|| MultiQueryResponse::deserialize(body))).map_err(|p| format!("client-side decoding panicked: {}", panic_message(&p)))?.map_err(|e| format!("binary body does not decode: {e}"))?;
            let mut out = Vec::new();
            for r in &m.responses {
                let mut cols = std::collections::BTreeMap::new();
                for (k, c) in &r.columns {
                    cols.insert(k.clone(), api_column_cells(c)?);
                }
                out.push(Decoded { colnames: None, rows: None, cols: Some(cols) });
            }
            Ok(out)
        }
        _ => Err("not a multi-query endpoint".into()),
    }
}

pub fn multi_via(db: &Arc<LocustDB>, endpoint: HttpEndpoint, sqls: &[String]) -> Result<HttpOut, String> {
    use serde_json::json;
    let opts = match endpoint {
        HttpEndpoint::MultiBin => json!({ "xor_float_compression": false, "mantissa": null, "full_precision_cols": [] }),
        HttpEndpoint::MultiBinXor => json!({ "xor_float_compression": true, "mantissa": null, "full_precision_cols": [] }),
        _ => serde_json::Value::Null,
    };
    call(db, "/multi_query_cols", Body::Json(json!({ "queries": sqls, "encoding_opts": opts })))
}

pub fn query_via(db: &Arc<LocustDB>, endpoint: HttpEndpoint, sql: &str) -> Result<HttpOut, String> {
    use serde_json::json;
    match endpoint {
        HttpEndpoint::Query => call(db, "/query", Body::Json(json!({ "query": sql }))),
        HttpEndpoint::QueryCols => call(db, "/query_cols", Body::Json(json!({ "query": sql }))),
        HttpEndpoint::MultiJson => call(db, "/multi_query_cols", Body::Json(json!({ "queries": [sql], "encoding_opts": null }))),
        HttpEndpoint::MultiBin => call(db, "/multi_query_cols", Body::Json(json!({ "queries": [sql], "encoding_opts": { "xor_float_compression": false, "mantissa": null, "full_precision_cols": [] } }))),
        HttpEndpoint::MultiBinXor => call(db, "/multi_query_cols", Body::Json(json!({ "queries": [sql], "encoding_opts": { "xor_float_compression": true, "mantissa": null, "full_precision_cols": [] } }))),
    }
}

fn is_json(e: HttpEndpoint) -> bool {
    matches!(e, HttpEndpoint::Query | HttpEndpoint::QueryCols | HttpEndpoint::MultiJson)
}

/// embedded cell vs the cell an endpoint delivered
fn same_cell(emb: &Cell, http: &Cell, json: bool) -> bool {
    if emb == http {
        return true;
    }
    if json {
        // JSON cannot represent non-finite floats (the property excepts them): serde renders null
        if let (Cell::F(b), Cell::N) = (emb, http) {
            return !f64::from_bits(*b).is_finite();
        }
        // an integral float may be printed without a fraction by some encoders; serde_json prints
        // "5.0", so nothing to relax here
    }
    false
}

/// An HTTP answer as the QOut the concurrent-phase oracles work on.
pub fn as_query_result(endpoint: HttpEndpoint, out: &Result<HttpOut, String>, colnames_hint: &[String]) -> Result<QOut, QErr> {
    match out {
        Err(m) => Err(QErr::Panic(m.clone())),
        Ok(o) if o.status != 200 => Err(QErr::Err(format!("HTTP{}", o.status), rt::core::truncate(&String::from_utf8_lossy(&o.body), 200))),
        Ok(o) => match decode(endpoint, &o.body) {
            Err(e) => Err(QErr::Err("HTTPDecode".into(), e)),
            Ok(d) => {
                let colnames = d.colnames.clone().unwrap_or_else(|| colnames_hint.to_vec());
                let (rows, cols) = match (&d.rows, &d.cols) {
                    (Some(rows), _) => {
                        let cols = colnames.iter().enumerate().map(|(i, n)| (n.clone(), rows.iter().map(|r| r.get(i).cloned().unwrap_or(Cell::N)).collect())).collect();
                        (rows.clone(), cols)
                    }
                    (None, Some(cols)) => {
                        let n = cols.values().map(|c| c.len()).max().unwrap_or(0);
                        let rows = (0..n).map(|r| colnames.iter().map(|c| cols.get(c).and_then(|v| v.get(r)).cloned().unwrap_or(Cell::N)).collect()).collect();
                        let cv = colnames.iter().map(|c| (c.clone(), cols.get(c).cloned().unwrap_or_default())).collect();
                        (rows, cv)
                    }
                    _ => (vec![], vec![]),
                };
                Ok(QOut { colnames, rows, cols, had_rows: true })
            }
        },
    }
}

fn expected_status(kind: &str) -> u16 {
    match kind {
        "NotImplemented" => 501,
        "FatalError" => 500,
        _ => 400,
    }
}

/// Compare one query's HTTP answer with the embedded answer obtained right before on the same
/// quiescent database.
pub fn compare_with_embedded(env: &mut Env, endpoint: HttpEndpoint, sql: &str, ordered: bool, ctx: &str) {
    let before = env.violations.len();
    let original = compare_with_embedded_inner(env, endpoint, sql, ordered, ctx);
    // A difference is only the interface's doing if the embedded API itself answers the same
    // way twice: some query shapes have schedule-dependent answers (open engine findings).
    let differs = env.violations.len() > before && env.violations[before..].iter().any(|v| v.class.starts_with("http:cell_differs") || v.class.starts_with("http:row_count_differs") || v.class.starts_with("http:column_length_differs"));
    if differs {
        let key = |r: &Result<QOut, QErr>| match r {
            Ok(o) => {
                let n = o.cols.first().map(|c| c.1.len()).unwrap_or(0);
                let mut rows: Vec<String> = if o.had_rows { o.rows.iter().map(|r| format!("{r:?}")).collect() } else { (0..n).map(|r| format!("{:?}", o.cols.iter().map(|c| c.1.get(r)).collect::<Vec<_>>())).collect() };
                if !ordered {
                    rows.sort();
                }
                format!("{:?} {rows:?}", o.colnames)
            }
            Err(e) => format!("error {}", e.kind()),
        };
        if sql.starts_with("SELECT n, COUNT(1)") {
            // grouping by a nullable column: the NULL group comes back once or twice depending on
            // the merge order of the partial results (open engine finding), whichever API asks
            let detail = env.violations[before].detail.clone();
            env.violations.truncate(before);
            env.violate("embedded_answers_vary:group_by_nullable", detail);
            return;
        }
        let first = key(&original);
        for _ in 0..6 {
            let again = key(&run_query_fmt(&env.db(), sql, endpoint == HttpEndpoint::Query));
            if again != first {
                env.violations.truncate(before);
                let shape = if sql.starts_with("SELECT n, COUNT(1)") { "group_by_nullable" } else { "other" };
                env.violate(&format!("embedded_answers_vary:{shape}"), format!("[{ctx}] {sql:?}: the embedded API gives different answers to the same query on the same quiescent database: {} / {}", rt::core::truncate(&first, 200), rt::core::truncate(&again, 200)));
                return;
            }
        }
    }
}

fn compare_with_embedded_inner(env: &mut Env, endpoint: HttpEndpoint, sql: &str, ordered: bool, ctx: &str) -> Result<QOut, QErr> {
    // (the handlers of the column endpoints ask for the column view only)
    let db = env.db();
    env.count("query");
    let emb = run_query_fmt(&db, sql, endpoint == HttpEndpoint::Query);
    compare_answers(env, &emb, endpoint, sql, ordered, ctx);
    emb
}

fn compare_answers(env: &mut Env, emb: &Result<QOut, QErr>, endpoint: HttpEndpoint, sql: &str, ordered: bool, ctx: &str) {
    let db = env.db();
    let http = query_via(&db, endpoint, sql);
    let ep = format!("{endpoint:?}");
    env.count(&format!("http_query:{ep}"));
    let http = match http {
        Err(m) => {
            let what = match emb {
                Ok(_) => "a query the embedded API answers".to_string(),
                Err(e) => format!("a query the embedded API fails with {}", e.kind()),
            };
            env.violate(&format!("http:handler_panicked:{ep}:{}", if emb.is_ok() { "ok_query" } else { "failing_query" }), format!("[{ctx}] {ep} {sql:?}: the handler panicked instead of answering ({what}): {m}"));
            return;
        }
        Ok(h) => h,
    };
    match (emb, http.status) {
        (Err(QErr::Panic(m)), _) => env.violate(&caller_panic_class("query_panicked_in_caller", m), format!("[{ctx}] run_query({sql:?}) panicked in the calling thread: {m}")),
        (Err(e), 200) => env.violate(&format!("http:status_200_for_failing_query:{ep}"), format!("[{ctx}] {ep} {sql:?}: HTTP 200 but the embedded API fails with {}: {}", e.kind(), e.msg())),
        (Err(e), s) => {
            env.count("http_failing_query_mapped");
            let want = expected_status(&e.kind());
            // (which partition's error wins can depend on the schedule: ask again before judging)
            let mut kinds = vec![e.kind()];
            if s != want {
                for _ in 0..4 {
                    if let Err(e2) = run_query_fmt(&env.db(), sql, endpoint == HttpEndpoint::Query) {
                        kinds.push(e2.kind());
                    }
                }
            }
            // With several workers the partitions of a failing query are executed concurrently and
            // the error of whichever fails first is reported: two calls can fail with different
            // kinds. The exact mapping is only checked where the kind is deterministic.
            if env.opts.threads > 1 && s >= 400 {
                if !kinds.iter().any(|k| expected_status(k) == s) {
                    env.count("http_error_status_of_another_kind");
                }
            } else if !kinds.iter().any(|k| expected_status(k) == s) {
                env.violate(&format!("http:wrong_error_status:{ep}:{}", e.kind()), format!("[{ctx}] {ep} {sql:?}: status {s}, the mapping gives {want} for {}", e.kind()));
            }
        }
        (Ok(_), s) if s != 200 => env.violate(&format!("http:error_status_for_ok_query:{ep}"), format!("[{ctx}] {ep} {sql:?}: status {s} ({}) but the embedded API answers", rt::core::truncate(&String::from_utf8_lossy(&http.body), 200))),
        (Ok(o), _) => {
            let d = match decode(endpoint, &http.body) {
                Ok(d) => d,
                Err(e) => {
                    env.violate(&format!("http:undecodable_body:{ep}"), format!("[{ctx}] {ep} {sql:?}: {e}"));
                    return;
                }
            };
            compare_decoded(env, o, &d, endpoint, sql, ordered, ctx);
        }
    }
}

/// one decoded response against the embedded answer to the same statement
fn compare_decoded(env: &mut Env, o: &QOut, d: &Decoded, endpoint: HttpEndpoint, sql: &str, ordered: bool, ctx: &str) {
    let ep = format!("{endpoint:?}");
    {
        {
            let json = is_json(endpoint);
            if let Some(cn) = &d.colnames {
                if cn != &o.colnames {
                    env.violate(&format!("http:colnames_differ:{ep}"), format!("[{ctx}] {ep} {sql:?}: column names {cn:?}, embedded {:?}", o.colnames));
                    return;
                }
            }
            if let Some(rows) = &d.rows {
                let mut a: Vec<Vec<Cell>> = rows.clone();
                let mut b: Vec<Vec<Cell>> = o.rows.clone();
                if !ordered {
                    a.sort_by_key(|r| format!("{r:?}"));
                    b.sort_by_key(|r| format!("{r:?}"));
                }
                if a.len() != b.len() {
                    env.violate(&format!("http:row_count_differs:{ep}"), format!("[{ctx}] {ep} {sql:?}: {} rows, embedded {}", a.len(), b.len()));
                    return;
                }
                for (i, (ra, rb)) in a.iter().zip(b.iter()).enumerate() {
                    if ra.len() != rb.len() || !ra.iter().zip(rb.iter()).all(|(h, e)| same_cell(e, h, json)) {
                        // (unordered comparison of rows holding non-finite floats: fall back to a multiset of the finite part)
                        if !ordered && b.iter().flatten().any(|c| matches!(c, Cell::F(x) if !f64::from_bits(*x).is_finite())) {
                            env.count("http_unordered_nonfinite_skipped");
                            return;
                        }
                        env.violate(&format!("http:cell_differs:{ep}"), format!("[{ctx}] {ep} {sql:?}: row {i} is {:?}, embedded {:?}", ra.iter().map(|c| c.short()).collect::<Vec<_>>(), rb.iter().map(|c| c.short()).collect::<Vec<_>>()));
                        return;
                    }
                }
            }
            if let Some(cols) = &d.cols {
                // a name selected twice cannot appear twice in a name -> column map: the last one wins
                let mut emb: std::collections::BTreeMap<&String, &Vec<Cell>> = Default::default();
                for (n, c) in &o.cols {
                    emb.insert(n, c);
                }
                for name in emb.keys() {
                    if !cols.contains_key(*name) {
                        env.violate(&format!("http:column_missing:{ep}"), format!("[{ctx}] {ep} {sql:?}: no column {name:?} in the answer (has {:?})", cols.keys().collect::<Vec<_>>()));
                        return;
                    }
                }
                if let Some(extra) = cols.keys().find(|k| !emb.contains_key(k)) {
                    env.violate(&format!("http:column_extra:{ep}"), format!("[{ctx}] {ep} {sql:?}: column {extra:?} in the answer, embedded has {:?}", emb.keys().collect::<Vec<_>>()));
                    return;
                }
                let n = emb.values().next().map(|c| c.len()).unwrap_or(0);
                if let Some((name, got)) = cols.iter().find(|(_, v)| v.len() != n) {
                    env.violate(&format!("http:column_length_differs:{ep}"), format!("[{ctx}] {ep} {sql:?}: column {name:?} has {} cells, embedded {n}", got.len()));
                    return;
                }
                let nonfinite = emb.values().any(|v| v.iter().any(|c| matches!(c, Cell::F(x) if !f64::from_bits(*x).is_finite())));
                if ordered {
                    for (name, want) in &emb {
                        let got = &cols[*name];
                        if let Some(i) = (0..n).find(|&i| !same_cell(&want[i], &got[i], json)) {
                            env.violate(&format!("http:cell_differs:{ep}"), format!("[{ctx}] {ep} {sql:?}: column {name:?} cell {i} is {}, embedded {}", got[i].short(), want[i].short()));
                            return;
                        }
                    }
                } else if json && nonfinite {
                    env.count("http_unordered_nonfinite_skipped");
                    return;
                } else {
                    let mut a: Vec<Vec<Cell>> = (0..n).map(|r| emb.keys().map(|c| cols[*c][r].clone()).collect()).collect();
                    let mut b: Vec<Vec<Cell>> = (0..n).map(|r| emb.values().map(|v| v[r].clone()).collect()).collect();
                    a.sort_by_key(|r| format!("{r:?}"));
                    b.sort_by_key(|r| format!("{r:?}"));
                    if let Some(i) = (0..n).find(|&i| a[i] != b[i]) {
                        env.violate(&format!("http:cell_differs:{ep}"), format!("[{ctx}] {ep} {sql:?}: as multisets of rows the answers differ, e.g. {:?} vs embedded {:?}", a[i].iter().map(|c| c.short()).collect::<Vec<_>>(), b[i].iter().map(|c| c.short()).collect::<Vec<_>>()));
                        return;
                    }
                }
            }
            env.count("http_answers_equal_embedded");
        }
    }
}

pub fn exec_http(env: &mut Env, op: &Op, ctx: &str) {
    // row order without ORDER BY is only defined when a single worker merges the partitions
    let single = env.opts.threads <= 1;
    match op {
        Op::HttpQuery { endpoint, q } => {
            let aggregate = q.select.iter().any(|s| matches!(s, crate::sql::SelItem::Agg(..)));
            compare_with_embedded(env, *endpoint, &q.sql, single || !aggregate, ctx)
        }
        Op::HttpRawQuery { endpoint, sql } => compare_with_embedded(env, *endpoint, sql, single, ctx),
        Op::HttpMulti { endpoint, sqls } => {
            let db = env.db();
            let ep = format!("{endpoint:?}");
            let embs: Vec<Result<QOut, QErr>> = sqls.iter().map(|q| run_query_fmt(&db, q, false)).collect();
            let http = multi_via(&db, *endpoint, sqls);
            env.count("http_multi_requests");
            let h = match http {
                Err(m) => {
                    env.violate(&format!("http:handler_panicked:{ep}:multi"), format!("[{ctx}] {ep} {sqls:?}: the handler panicked: {m}"));
                    return;
                }
                Ok(h) => h,
            };
            if let Some(Err(QErr::Panic(m))) = embs.iter().find(|e| matches!(e, Err(QErr::Panic(_)))) {
                env.violate(&caller_panic_class("query_panicked_in_caller", m), format!("[{ctx}] run_query panicked in the calling thread: {m}"));
                return;
            }
            if embs.iter().any(|e| e.is_err()) {
                if h.status == 200 {
                    env.violate(&format!("http:status_200_for_failing_query:{ep}:multi"), format!("[{ctx}] {ep} {sqls:?}: HTTP 200 although one of the statements fails through the embedded API"));
                } else {
                    env.count("http_failing_query_mapped");
                }
                return;
            }
            if h.status != 200 {
                env.violate(&format!("http:error_status_for_ok_query:{ep}:multi"), format!("[{ctx}] {ep} {sqls:?}: status {} although every statement is answered by the embedded API", h.status));
                return;
            }
            let ds = match decode_multi(*endpoint, &h.body) {
                Ok(d) => d,
                Err(e) => {
                    env.violate(&format!("http:undecodable_body:{ep}:multi"), format!("[{ctx}] {ep} {sqls:?}: {e}"));
                    return;
                }
            };
            if ds.len() != sqls.len() {
                env.violate(&format!("http:response_count_differs:{ep}"), format!("[{ctx}] {ep}: {} responses for {} statements", ds.len(), sqls.len()));
                return;
            }
            for (i, (d, emb)) in ds.iter().zip(embs.iter()).enumerate() {
                if let Ok(o) = emb {
                    let before = env.violations.len();
                    compare_decoded(env, o, d, *endpoint, &sqls[i], single, &format!("{ctx}, response {i} of {}", sqls.len()));
                    if env.violations.len() > before {
                        return;
                    }
                }
            }
        }
        Op::HttpColumns { table, pattern } => {
            let db = env.db();
            let emb = catch(AssertUnwindSafe(|| rt::block_on(db.search_column_names(table, pattern))));
            let http = call(&db, "/columns", Body::Json(serde_json::json!({ "tables": [table], "pattern": pattern })));
            env.count("http_columns");
            match (emb, http) {
                (_, Err(m)) => env.violate("http:handler_panicked:columns", format!("[{ctx}] /columns {table:?} {pattern:?}: the handler panicked: {m}")),
                (Err(p), _) => env.violate(&format!("call_panicked_in_caller:{}", stem(&panic_message(&p))), format!("[{ctx}] search_column_names panicked: {}", panic_message(&p))),
                (Ok(Err(_)), Ok(h)) => {
                    if h.status == 200 {
                        env.violate("http:status_200_for_failing_query:columns", format!("[{ctx}] /columns {table:?}: 200 but the embedded call fails"));
                    }
                }
                (Ok(Ok(cols)), Ok(h)) => {
                    if h.status != 200 {
                        env.violate("http:error_status_for_ok_query:columns", format!("[{ctx}] /columns {table:?}: status {}", h.status));
                        return;
                    }
                    let v: serde_json::Value = serde_json::from_slice(&h.body).unwrap_or(serde_json::Value::Null);
                    let got: Option<Vec<String>> = v.get("columns").and_then(|c| strs(c).ok());
                    let mut want: Vec<String> = cols.into_iter().collect::<std::collections::BTreeSet<_>>().into_iter().collect();
                    want.sort();
                    if got.as_ref() != Some(&want) {
                        env.violate("http:columns_differ", format!("[{ctx}] /columns {table:?} {pattern:?}: {got:?}, embedded {want:?}"));
                    }
                }
            }
        }
        _ => env.count("op_unimplemented"),
    }
}
