//! C17: the HTTP handlers driven in-process (filled in below).
use crate::env::Env;
use crate::plan::Op;

pub fn exec_http(env: &mut Env, _op: &Op, _ctx: &str) {
    env.count("op_unimplemented");
}
