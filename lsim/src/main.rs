//! lsim — deterministic whole-database simulator for LocustDB (see /verif/DESIGN.md).
mod coord;
mod env;
mod exec;
mod exec_crash;
mod exec_more;
mod gen;
mod http;
mod sqlgen;
mod model;
mod plan;
mod props;
mod sched;
mod sim;
mod sql;
mod wire;

use plan::*;
use std::collections::BTreeMap;

fn arg<'a>(args: &'a [String], name: &str) -> Option<&'a str> {
    args.iter().position(|a| a == name).and_then(|i| args.get(i + 1)).map(|s| s.as_str())
}
fn arg_u64(args: &[String], name: &str, default: u64) -> u64 {
    arg(args, name).map(|s| s.parse().unwrap_or_else(|_| panic!("bad value for {name}"))).unwrap_or(default)
}

/// Every worker process first executes the same fixed plan, so that process-global lazily
/// initialised state (hash seeds of dependencies, lazy statics, regex caches) is identical in
/// every process whatever it runs afterwards.
pub fn warm_up() {
    let _ = props::run_plan(&props::warm_up_plan());
    for (prop, seed) in [("C08", 0x57A2_7000u64), ("C17", 0x57A2_7017), ("C11", 0x57A2_7011), ("C04", 0x57A2_7004), ("C05", 0x57A2_7005), ("C13", 0x57A2_7013)] {
        let plan = props::gen_plan(prop, seed);
        let _ = props::run_plan(&plan);
    }
}

fn main() {
    // sqlparser guards its recursion with `stacker`, which only knows the OS thread's stack bounds:
    // on a coroutine stack it would mmap a fresh 2 MiB segment for every parse. Growth is switched
    // off; coroutine stacks are sized generously instead (sqlparser's own depth limit still applies).
    recursive::set_minimum_stack_size(0);
    let args: Vec<String> = std::env::args().collect();
    let cmd = args.get(1).map(|s| s.as_str()).unwrap_or("help");
    if cmd != "check" && cmd != "selftest-determinism" {
        // Processes that execute the database get a fixed address-space budget: a length field read
        // from a damaged file that is accepted as valid then fails its allocation at once (abort,
        // reported as `process_abort:*`, the same in a replay) instead of inviting the OOM killer
        // at a moment that depends on what the other 15 workers are doing.
        let lim = libc::rlimit { rlim_cur: 6 << 30, rlim_max: 6 << 30 };
        unsafe {
            libc::setrlimit(libc::RLIMIT_AS, &lim);
        }
    }
    match cmd {
        "worker" => {
            warm_up();
            coord::worker_main(&args);
        }
        "check" => std::process::exit(coord::check_main(&args)),
        "replay" => {
            warm_up();
            std::process::exit(coord::replay_main(&args));
        }
        "selftest-determinism" => std::process::exit(coord::selftest_determinism(&args)),
        "hashes" => {
            warm_up();
            coord::hashes_main(&args);
        }
        "one" => {
            warm_up();
            let prop = arg(&args, "--prop").expect("--prop");
            let seed = arg_u64(&args, "--seed", 1);
            let index = arg_u64(&args, "--index", 0);
            let plan = props::gen_plan(prop, props::mix_seed(seed, prop, index));
            if args.iter().any(|a| a == "--plan") {
                println!("{}", serde_json::to_string_pretty(&plan).unwrap());
            }
            let t0 = std::time::Instant::now();
            let r = props::run_plan(&plan);
            println!("ops: {:?}", plan.ops.iter().map(exec::op_name).collect::<Vec<_>>());
            println!("opts: {:?}", plan.opts);
            println!("sched: {:?}", plan.sched);
            println!("stats: steps={} sp={} switches={} timers={} sim_s={:.1} fs_effects={} events={} hash={:016x} end={} wall={:?}", r.stats.steps, r.stats.sched_points, r.stats.ctx_switches, r.stats.timers_fired, r.stats.sim_ns as f64 / 1e9, r.stats.fs_effects, r.stats.events, r.stats.event_hash, r.stats.end, t0.elapsed());
            let c: BTreeMap<_, _> = r.stats.counters.iter().collect();
            println!("counters: {:?}", c);
            for v in &r.violations {
                println!("VIOLATION class={} :: {}", v.class, v.detail);
            }
        }
        "classes" => {
            // triage helper: one example per violation class over the first N run indices
            warm_up();
            let prop = arg(&args, "--prop").expect("--prop");
            let seed = arg_u64(&args, "--seed", 20260923);
            let n = arg_u64(&args, "--runs", 500);
            let mut seen: BTreeMap<String, (u64, u64, String)> = BTreeMap::new();
            for i in 0..n {
                let plan = props::gen_plan(prop, props::mix_seed(seed, prop, i));
                let r = props::run_plan(&plan);
                for v in r.violations {
                    let e = seen.entry(v.class.clone()).or_insert((i, 0, v.detail.clone()));
                    e.1 += 1;
                    if v.detail.len() < e.2.len() {
                        e.2 = v.detail.clone();
                        e.0 = i;
                    }
                }
            }
            for (c, (i, k, d)) in seen {
                println!("== {c}  (x{k}, e.g. index {i})\n   {}", d.chars().take(700).collect::<String>());
            }
        }
        "adhoc" => {
            // exploratory: a fixed small table, queries from argv, results printed
            warm_up();
            let queries: Vec<String> = args[2..].to_vec();
            let spec = sched::SchedSpec::simple(1);
            let _ = sim::run_sim(1, &spec, 3_000_000, false, move || {
                use model::*;
                let mut env = env::Env::new("/sim/adhoc", env::OptsSpec { on_disk: false, ..env::OptsSpec::defaults() });
                env.open();
                let mk = |id: u32, rows: Vec<(i64, Cell, Cell, Cell, Cell)>| Request {
                    id,
                    path: IngestPath::Native,
                    tables: vec![TableBatch {
                        table: "q".into(),
                        rows: rows.len(),
                        cols: vec![
                            ColBatch { name: "id".into(), cells: rows.iter().map(|r| Cell::I(r.0)).collect(), repr: Repr::Typed },
                            ColBatch { name: "i1".into(), cells: rows.iter().map(|r| r.1.clone()).collect(), repr: Repr::Typed },
                            ColBatch { name: "f1".into(), cells: rows.iter().map(|r| r.2.clone()).collect(), repr: Repr::Typed },
                            ColBatch { name: "s1".into(), cells: rows.iter().map(|r| r.3.clone()).collect(), repr: Repr::Typed },
                            ColBatch { name: "s2".into(), cells: rows.iter().map(|r| r.4.clone()).collect(), repr: Repr::Typed },
                        ],
                    }],
                };
                let s = |x: &str| Cell::S(x.to_string());
                env.ingest(&mk(1, vec![(1, Cell::I(5), Cell::f(1.5), s("k1"), s("apple")), (2, Cell::N, Cell::f(-2.0), Cell::N, s("pear")), (3, Cell::I(7), Cell::N, s("k2"), s("zebra"))]));
                env.flush();
                env.ingest(&mk(2, vec![(4, Cell::I(300), Cell::f(0.25), s("k1"), s("mango")), (5, Cell::I(-3), Cell::f(8.0), s("k3"), s("fig")), (6, Cell::N, Cell::N, Cell::N, s("kiwi"))]));
                for q in &queries {
                    match env.query(q) {
                        Ok(o) => println!("{q}\n  -> {:?} {:?}", o.colnames, o.rows.iter().map(|r| r.iter().map(|c| c.short()).collect::<Vec<_>>()).collect::<Vec<_>>()),
                        Err(e) => println!("{q}\n  -> ERR {}: {}", e.kind(), e.msg()),
                    }
                }
                env.close();
            });
        }
        _ => {
            eprintln!("usage: lsim check|worker|replay|selftest-determinism|one ...");
            std::process::exit(2);
        }
    }
}

pub fn cli_arg<'a>(args: &'a [String], name: &str) -> Option<&'a str> {
    arg(args, name)
}
pub fn cli_u64(args: &[String], name: &str, default: u64) -> u64 {
    arg_u64(args, name, default)
}

#[allow(dead_code)]
fn _unused(_: RunResult) {}
