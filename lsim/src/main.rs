mod sched;
mod sim;

use locustdb::{LocustDB, Options};
use locustdb_serialization::event_buffer::{ColumnBuffer, ColumnData, EventBuffer, TableBuffer};
use locustdb_simrt as rt;
use std::collections::HashMap;
use std::sync::Arc;

fn batch(table: &str, start: i64, n: i64) -> EventBuffer {
    let mut cols = HashMap::new();
    cols.insert("id".to_string(), ColumnBuffer { data: ColumnData::I64((start..start + n).collect()) });
    cols.insert("f".to_string(), ColumnBuffer { data: ColumnData::Dense((start..start + n).map(|x| x as f64 * 0.5).collect()) });
    cols.insert("s".to_string(), ColumnBuffer { data: ColumnData::String((start..start + n).map(|x| format!("s{}", x % 3)).collect()) });
    EventBuffer { tables: HashMap::from([(table.to_string(), TableBuffer::new(cols))]) }
}

fn smoke() {
    rt::fs::add_root("/sim/r0");
    let opts = Options {
        threads: 2,
        read_threads: 2,
        db_path: Some("/sim/r0".into()),
        metrics_table_name: None,
        partition_combine_factor: 1,
        io_threads: 1,
        ..Options::default()
    };
    let mut total = 0;
    {
        let db = Arc::new(LocustDB::new(&opts));
        for i in 0..3 {
            rt::block_on(db.ingest_efficient(batch("t", total, 5 + i)));
            total += 5 + i;
            if i == 1 {
                db.force_flush();
            }
        }
        let db2 = db.clone();
        let q = rt::thread::spawn_harness("q", move || {
            let r = rt::block_on(db2.run_query("SELECT id, f, s FROM t", false, true, vec![])).unwrap();
            r.rows.unwrap().len()
        });
        db.force_flush();
        let _n = q.join().unwrap();
        let r = rt::block_on(db.run_query("SELECT id FROM t", false, true, vec![])).unwrap();
        assert_eq!(r.rows.unwrap().len(), total as usize);
        drop(db);
        rt::thread::wait_db_quiescent();
    }
    {
        let db = Arc::new(LocustDB::new(&opts));
        let r = rt::block_on(db.run_query("SELECT id FROM t", false, true, vec![])).unwrap();
        assert_eq!(r.rows.unwrap().len(), total as usize);
        drop(db);
        rt::thread::wait_db_quiescent();
    }
}

fn main() {
    let args: Vec<String> = std::env::args().collect();
    let seed: u64 = args.get(1).map(|s| s.parse().unwrap()).unwrap_or(1);
    let n: u64 = args.get(2).map(|s| s.parse().unwrap()).unwrap_or(1);
    let t0 = std::time::Instant::now();
    for i in 0..n {
        let mut rng = rt::core::Rng::new(seed + i);
        let spec = sched::SchedSpec::generate(&mut rng);
        let rep = sim::run_sim(seed + i, &spec, sim::DEFAULT_MAX_STEPS, false, smoke);
        if n <= 4 || rep.end != sim::EndState::Completed {
            println!(
                "seed={} kind={} end={:?} steps={} sp={} switches={} timers={} idle={} sim_s={:.1} events={} hash={:016x} panics={} fs_effects={}",
                seed + i, spec.kind, rep.end, rep.steps, rep.sched_points, rep.ctx_switches, rep.timers_fired, rep.idle_firings,
                rep.sim_ns as f64 / 1e9, rep.ctx.events.len(), rep.event_hash, rep.ctx.panics.len(), rt::fs::effects_len()
            );
            for p in &rep.ctx.panics {
                println!("  panic: {} {} {}", p.role, p.location, p.message);
            }
        }
        if std::env::var("LSIM_DUMP").is_ok() {
            for e in &rep.ctx.events {
                println!("  {:5} t{:<3} {:>12} {:12} {}", e.seq, e.task, e.t_ns, e.kind, e.detail);
            }
        }
    }
    println!("{} runs in {:?}", n, t0.elapsed());
}
