//! Reference model: what the database must contain, by definition of the properties.

use serde::{Deserialize, Serialize};
use std::collections::BTreeMap;

/// A cell. Floats are carried as their bit pattern so that plans and replay files are bit-exact.
#[derive(Clone, Debug, PartialEq, Eq, Hash, PartialOrd, Ord, Serialize, Deserialize)]
pub enum Cell {
    N,
    I(i64),
    F(u64),
    S(String),
}

impl Cell {
    pub fn f(x: f64) -> Cell {
        Cell::F(x.to_bits())
    }
    pub fn as_f64(&self) -> Option<f64> {
        match self {
            Cell::F(b) => Some(f64::from_bits(*b)),
            _ => None,
        }
    }
    pub fn is_null(&self) -> bool {
        matches!(self, Cell::N)
    }
    pub fn short(&self) -> String {
        match self {
            Cell::N => "NULL".into(),
            Cell::I(i) => format!("{i}"),
            Cell::F(b) => format!("{:?}f", f64::from_bits(*b)),
            Cell::S(s) => {
                if s.len() > 24 {
                    format!("{:?}…({}B)", &s[..s.char_indices().take_while(|(i, _)| *i < 20).last().map(|(i, c)| i + c.len_utf8()).unwrap_or(0)], s.len())
                } else {
                    format!("{s:?}")
                }
            }
        }
    }
}

/// The reserved NULL markers of the engine (excluded from the value domain by C01).
pub const I64_NULL: i64 = i64::MAX;
pub fn is_reserved_nan(bits: u64) -> bool {
    // the engine's F64 null marker; any NaN is avoided by the generators (NaN != NaN complicates
    // every oracle and the property only promises bit-exactness for the non-reserved values)
    f64::from_bits(bits).is_nan()
}

/// How a column of a batch is handed to the database.
#[derive(Clone, Copy, Debug, PartialEq, Eq, Serialize, Deserialize)]
pub enum Repr {
    /// choose the natural typed representation (I64 / Dense / String / Empty), Mixed if impossible
    Typed,
    /// sparse (index, value) pairs for int / float columns with nulls (wire path only)
    Sparse,
    /// dense prefix shorter than the row count: trailing rows are NULL (wire path only)
    ShortDense,
    /// Mixed(Vec<AnyVal>)
    Mixed,
}

#[derive(Clone, Debug, PartialEq, Serialize, Deserialize)]
pub struct ColBatch {
    pub name: String,
    pub cells: Vec<Cell>,
    pub repr: Repr,
}

#[derive(Clone, Debug, PartialEq, Serialize, Deserialize)]
pub struct TableBatch {
    pub table: String,
    pub rows: usize,
    pub cols: Vec<ColBatch>,
}

#[derive(Clone, Copy, Debug, PartialEq, Eq, Serialize, Deserialize)]
pub enum IngestPath {
    /// `TableBuffer::new` + `LocustDB::ingest_efficient`
    Native,
    /// native buffer -> `EventBuffer::serialize` -> `deserialize` -> ingest
    NativeWire,
    /// hand-built wire message (explicit row count, sparse / short columns) -> `deserialize` -> ingest
    Wire,
    /// the same wire bytes POSTed to the real `/insert_bin` handler
    Http,
}

#[derive(Clone, Debug, PartialEq, Serialize, Deserialize)]
pub struct Request {
    pub id: u32,
    pub path: IngestPath,
    pub tables: Vec<TableBatch>,
}

#[derive(Clone, Debug, Default)]
pub struct MTable {
    /// column names in first-seen order
    pub cols: Vec<String>,
    /// rows in acknowledged order; a row shorter than `cols` is NULL in the missing columns
    pub rows: Vec<Vec<Cell>>,
    /// request id per row (C09/C10 oracles)
    pub row_req: Vec<u32>,
}

impl MTable {
    pub fn col_index(&self, name: &str) -> Option<usize> {
        self.cols.iter().position(|c| c == name)
    }
    pub fn cell(&self, row: usize, col: usize) -> &Cell {
        self.rows[row].get(col).unwrap_or(&Cell::N)
    }
    pub fn column(&self, name: &str) -> Vec<Cell> {
        match self.col_index(name) {
            Some(i) => (0..self.rows.len()).map(|r| self.cell(r, i).clone()).collect(),
            None => vec![Cell::N; self.rows.len()],
        }
    }
    /// (has_int, has_float, has_str) over the whole table for a column
    pub fn type_mix(&self, col: usize) -> (bool, bool, bool) {
        let mut m = (false, false, false);
        for r in 0..self.rows.len() {
            match self.cell(r, col) {
                Cell::I(_) => m.0 = true,
                Cell::F(_) => m.1 = true,
                Cell::S(_) => m.2 = true,
                Cell::N => {}
            }
        }
        m
    }
}

#[derive(Clone, Debug, Default)]
pub struct Model {
    /// user tables by name
    pub tables: BTreeMap<String, MTable>,
    /// user table names in first-seen order (for `_meta_tables`)
    pub table_order: Vec<String>,
}

impl Model {
    pub fn apply(&mut self, req: &Request) {
        for tb in &req.tables {
            if tb.rows == 0 {
                // an empty batch still creates the table (and its catalogue rows) in the engine
                // only if ... it is never generated; keep the model simple
                continue;
            }
            if !self.tables.contains_key(&tb.table) {
                self.table_order.push(tb.table.clone());
            }
            let t = self.tables.entry(tb.table.clone()).or_default();
            let mut idx = Vec::new();
            for c in &tb.cols {
                let i = match t.col_index(&c.name) {
                    Some(i) => i,
                    None => {
                        t.cols.push(c.name.clone());
                        t.cols.len() - 1
                    }
                };
                idx.push(i);
            }
            for r in 0..tb.rows {
                let mut row = vec![Cell::N; t.cols.len()];
                for (ci, c) in tb.cols.iter().enumerate() {
                    row[idx[ci]] = c.cells[r].clone();
                }
                t.rows.push(row);
                t.row_req.push(req.id);
            }
        }
    }

    pub fn total_rows(&self) -> usize {
        self.tables.values().map(|t| t.rows.len()).sum()
    }
}

/// Is `got` an acceptable read-back of `want` for a column whose table-wide type mix is `mix`?
/// Exact equality, or the documented degradation: int -> float if the column holds a float
/// somewhere, number -> string if it holds a string somewhere. Nothing else.
pub fn cell_acceptable(want: &Cell, got: &Cell, mix: (bool, bool, bool)) -> bool {
    if want == got {
        return true;
    }
    let (_has_int, has_float, has_str) = mix;
    match (want, got) {
        (Cell::I(v), Cell::F(b)) if has_float => (*v as f64).to_bits() == *b,
        (Cell::I(v), Cell::S(s)) if has_str => {
            *s == v.to_string() || (has_float && *s == ordered_float_to_string(*v as f64))
        }
        (Cell::F(b), Cell::S(s)) if has_str => *s == ordered_float_to_string(f64::from_bits(*b)),
        _ => false,
    }
}

/// `OrderedFloat<f64>::to_string()` is f64's Display.
pub fn ordered_float_to_string(x: f64) -> String {
    format!("{}", x)
}
