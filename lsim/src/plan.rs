//! Plans: everything one simulated run does, spelled out (so a replay file is the plan).

use crate::env::{OptsSpec, Violation};
use crate::model::*;
use crate::sched::SchedSpec;
use crate::sql::QSpec;
use serde::{Deserialize, Serialize};

#[derive(Clone, Debug, PartialEq, Serialize, Deserialize)]
pub enum Op {
    Ingest(Request),
    Flush,
    Evict,
    /// clean restart: drop the handle, wait for every thread of the instance to exit, reopen
    Restart,
    /// full read-back of every table and of the catalogue against the model
    CheckAll,
    /// a generated query, compared with the reference evaluator
    Query(QSpec),
    /// raw SQL whose outcome is judged by well-formedness only (C11/C12)
    RawQuery(String),
    /// let simulated time pass (background flush / memory threads act)
    Sleep(u64),
    Stats,
    MemTree,
    /// read one column cold (C15): `SELECT "c" FROM "t"` compared with the model column
    ReadColumn { table: String, column: String },
    /// `LocustDB::search_column_names` (C13)
    SearchColumns { table: String, pattern: String },
    /// run the client op lists concurrently and wait for all of them
    Concurrent(Vec<ClientPlan>),
    /// HTTP (C17)
    HttpQuery { endpoint: HttpEndpoint, q: QSpec },
    HttpRawQuery { endpoint: HttpEndpoint, sql: String },
    /// several statements in one /multi_query_cols request: response i must answer statement i
    HttpMulti { endpoint: HttpEndpoint, sqls: Vec<String> },
    HttpColumns { table: String, pattern: String },
}

#[derive(Clone, Copy, Debug, PartialEq, Eq, Serialize, Deserialize)]
pub enum HttpEndpoint {
    Query,
    QueryCols,
    MultiJson,
    MultiBin,
    MultiBinXor,
}

#[derive(Clone, Debug, PartialEq, Serialize, Deserialize)]
pub struct ClientPlan {
    pub name: String,
    pub ops: Vec<ClientOp>,
}

#[derive(Clone, Debug, PartialEq, Serialize, Deserialize)]
pub struct ClientOp {
    /// run this op when the database reaches sync point (label, nth); None = as soon as the
    /// previous op of this client has returned
    pub at: Option<(String, u64, u32)>,
    pub op: Op,
}

#[derive(Clone, Copy, Debug, PartialEq, Eq, Serialize, Deserialize)]
pub enum Extra {
    /// C08: `wal/` holds exactly one file per request acknowledged since the last flush froze the buffers
    WalFiles,
    /// C18: after every flush: no garbage files, wal empty, no temp files (reopen a copy, trace reads)
    NoGarbage,
    /// C15: file-system monitors (paths stay under the root, ENAMETOOLONG never provoked)
    FsMonitors,
    /// C09: enumerate crash images of the run's file-system effects and recover each
    CrashEnum,
    /// C14: enumerate damage to stored files and reopen
    Rot,
}

#[derive(Clone, Debug, PartialEq, Serialize, Deserialize)]
pub struct Plan {
    pub prop: String,
    pub profile: String,
    pub seed: u64,
    pub sched: SchedSpec,
    pub opts: OptsSpec,
    pub ops: Vec<Op>,
    /// run CheckAll after every op (sequential refinement)
    pub check_each: bool,
    pub extras: Vec<Extra>,
    /// strict cell comparison even for columns mixing types
    pub strict_types: bool,
    pub max_steps: usize,
    /// free-form knobs of a profile (crash sampling rates, rot targets ...)
    pub knobs: std::collections::BTreeMap<String, i64>,
    /// C02: a second physical realisation of the same logical content and queries
    #[serde(default)]
    pub alt: Option<Box<Plan>>,
}

impl Plan {
    pub fn knob(&self, k: &str, default: i64) -> i64 {
        *self.knobs.get(k).unwrap_or(&default)
    }
}

/// What a run produced (sent from worker to coordinator as one JSON line per run with violations,
/// aggregated counters otherwise).
#[derive(Clone, Debug, Default, Serialize, Deserialize)]
pub struct RunStats {
    pub steps: u64,
    pub sched_points: u64,
    pub ctx_switches: u64,
    pub timers_fired: u64,
    pub idle_firings: u64,
    pub eager_firings: u64,
    pub sim_ns: u64,
    pub fs_effects: u64,
    pub events: u64,
    pub event_hash: u64,
    pub sched_hash: u64,
    pub executions: u64,
    pub wall_us: u64,
    pub counters: std::collections::BTreeMap<String, u64>,
    pub signature: u64,
    pub nontrivial: bool,
    pub end: String,
}

#[derive(Clone, Debug, Serialize, Deserialize)]
pub struct RunResult {
    pub violations: Vec<Violation>,
    pub stats: RunStats,
}
