//! Per-property workload generators ("profiles"): how the one simulator is pointed at each property.

use crate::env::OptsSpec;
use crate::gen::*;
use crate::model::*;
use crate::plan::*;
use crate::sched::SchedSpec;
use locustdb_simrt::core::Rng;
use std::collections::BTreeMap;

pub const CLAIMED: &[&str] = &["C01", "C07", "C08", "C13", "C15", "C18"];

pub fn mix_seed(base: u64, prop: &str, i: u64) -> u64 {
    let mut h = 0xcbf29ce484222325u64 ^ base.wrapping_mul(0x9E3779B97F4A7C15);
    for b in prop.bytes() {
        h ^= b as u64;
        h = h.wrapping_mul(0x100000001b3);
    }
    h ^= i.wrapping_mul(0xD1B54A32D192ED03);
    h = (h ^ (h >> 31)).wrapping_mul(0x7FB5D329728EA185);
    h ^ (h >> 29)
}

fn base_plan(prop: &str, profile: &str, seed: u64, rng: &mut Rng) -> Plan {
    Plan {
        prop: prop.to_string(),
        profile: profile.to_string(),
        seed,
        sched: SchedSpec::generate(rng),
        opts: OptsSpec::generate(rng),
        ops: Vec::new(),
        check_each: true,
        extras: Vec::new(),
        strict_types: false,
        max_steps: crate::sim::DEFAULT_MAX_STEPS,
        knobs: BTreeMap::new(),
    }
}

fn plain_names() -> Vec<String> {
    PLAIN_NAMES.iter().map(|s| s.to_string()).collect()
}

struct TableGen {
    name: String,
    schema: Vec<ColSpec>,
    rows_so_far: u64,
    with_id: bool,
}

fn pick_path(rng: &mut Rng) -> IngestPath {
    match rng.below(10) {
        0..=4 => IngestPath::Native,
        5..=6 => IngestPath::NativeWire,
        _ => IngestPath::Wire,
    }
}

fn gen_request(rng: &mut Rng, id: u32, tables: &mut [TableGen], max_rows: usize, subset_cols: bool, all_tables: bool) -> Request {
    let mut tbs = Vec::new();
    let n = tables.len();
    let forced = rng.below(n as u64) as usize;
    for (i, t) in tables.iter_mut().enumerate() {
        if !(all_tables || i == forced || rng.below(2) == 0) {
            continue;
        }
        let rows = gen_len(rng, max_rows);
        let id_base = if t.with_id { Some(id as i64 * 100_000 + t.rows_so_far as i64) } else { None };
        let tb = gen_table_batch(rng, &t.name, &t.schema, rows, t.rows_so_far, id_base, subset_cols);
        t.rows_so_far += rows as u64;
        tbs.push(tb);
    }
    Request { id, path: pick_path(rng), tables: tbs }
}

fn gen_tables(rng: &mut Rng, ntables: usize, table_names: &[String], col_names: &[String], max_cols: usize) -> Vec<TableGen> {
    let mut names = table_names.to_vec();
    rng.shuffle(&mut names);
    names.truncate(ntables);
    names
        .into_iter()
        .map(|name| {
            let ncols = 1 + rng.below(max_cols as u64) as usize;
            TableGen { name, schema: gen_schema(rng, ncols, col_names), rows_so_far: 0, with_id: rng.below(2) == 0 }
        })
        .collect()
}

/// weights: (ingest, flush, evict, restart, sleep)
fn gen_history(rng: &mut Rng, tables: &mut [TableGen], nops: usize, w: (u64, u64, u64, u64, u64), max_rows: usize, subset_cols: bool, next_id: &mut u32) -> Vec<Op> {
    let total = w.0 + w.1 + w.2 + w.3 + w.4;
    let mut ops = Vec::new();
    // always start with data
    ops.push(Op::Ingest(gen_request(rng, *next_id, tables, max_rows, subset_cols, false)));
    *next_id += 1;
    while ops.len() < nops {
        let r = rng.below(total);
        let op = if r < w.0 {
            let q = Op::Ingest(gen_request(rng, *next_id, tables, max_rows, subset_cols, false));
            *next_id += 1;
            q
        } else if r < w.0 + w.1 {
            Op::Flush
        } else if r < w.0 + w.1 + w.2 {
            Op::Evict
        } else if r < w.0 + w.1 + w.2 + w.3 {
            Op::Restart
        } else {
            Op::Sleep(*rng.pick(&[300u64, 1100, 2500]))
        };
        ops.push(op);
    }
    ops
}

fn tnames(n: usize) -> Vec<String> {
    (0..n).map(|i| format!("t{i}")).collect()
}

pub fn gen_plan(prop: &str, seed: u64) -> Plan {
    let mut rng = Rng::new(seed);
    // one plan in sixteen may draw value classes that trigger the open findings
    let spicy = rng.below(16) == 0;
    set_spicy(spicy);
    set_packed_strings_ok(false);
    let mut plan = gen_plan_inner(prop, seed, &mut rng);
    plan.knobs.insert("spicy".into(), spicy as i64);
    plan
}

fn gen_plan_inner(prop: &str, seed: u64, rng: &mut Rng) -> Plan {
    let mut rng = rng.fork();
    match prop {
        "C01" => {
            let mut p = base_plan(prop, "history", seed, &mut rng);
            p.opts.on_disk = rng.below(5) != 0;
            if rng.below(3) == 0 {
                // no compaction: every string class (packed, hex, long) can be stored and re-read
                p.opts.partition_combine_factor = 999;
            }
            set_packed_strings_ok(p.opts.partition_combine_factor == 999);
            let nt = 1 + rng.below(2) as usize;
            let mut tables = gen_tables(&mut rng, nt, &tnames(3), &plain_names(), 5);
            let mut id = 1;
            let nops = 2 + rng.below(6) as usize;
            let w = if p.opts.on_disk { (5, 3, 1, 2, 0) } else { (5, 3, 0, 0, 0) };
            let max_rows = *rng.pick(&[12usize, 40, 70, 130]);
            p.ops = gen_history(&mut rng, &mut tables, nops, w, max_rows, true, &mut id);
            p
        }
        "C07" => {
            let mut p = base_plan(prop, "history", seed, &mut rng);
            p.opts.on_disk = true;
            // compaction merges 1..k partitions at every flush
            p.opts.partition_combine_factor = *rng.pick(&[0u64, 1, 2, 4, 999]);
            if rng.below(3) == 0 {
                // background maintenance on the simulated clock
                p.opts.max_wal_size_bytes = *rng.pick(&[1u64, 300, 2000]);
                p.opts.max_wal_files = *rng.pick(&[0usize, 1, 2]);
            }
            let nt = 1 + rng.below(2) as usize;
            let mut tables = gen_tables(&mut rng, nt, &tnames(3), &plain_names(), 5);
            let mut id = 1;
            let nops = 4 + rng.below(9) as usize;
            p.ops = gen_history(&mut rng, &mut tables, nops, (4, 4, 2, 1, 1), 30, true, &mut id);
            p
        }
        "C08" => {
            let mut p = base_plan(prop, "history", seed, &mut rng);
            p.opts.on_disk = true;
            p.opts.io_threads = *rng.pick(&[1usize, 4]);
            if rng.below(3) == 0 {
                p.opts.max_wal_size_bytes = *rng.pick(&[1u64, 500, 4000]);
                p.opts.max_wal_files = *rng.pick(&[0usize, 1, 3]);
            }
            p.extras.push(Extra::WalFiles);
            let nt = 1 + rng.below(3) as usize;
            let mut tables = gen_tables(&mut rng, nt, &tnames(4), &plain_names(), 4);
            let mut id = 1;
            let nops = 3 + rng.below(13) as usize;
            p.ops = gen_history(&mut rng, &mut tables, nops, (5, 2, 0, 4, 1), 20, false, &mut id);
            // every history ends with a restart so that the last state is read back from disk
            p.ops.push(Op::Restart);
            p
        }
        "C13" => {
            let mut p = base_plan(prop, "history", seed, &mut rng);
            p.opts.on_disk = rng.below(6) != 0;
            p.opts.partition_combine_factor = *rng.pick(&[0u64, 1, 4, 999]);
            let pool = hostile_col_names();
            let nt = 1 + rng.below(2) as usize;
            let mut tables = gen_tables(&mut rng, nt, &tnames(3), &pool, 7);
            let mut id = 1;
            let nops = 3 + rng.below(8) as usize;
            let w = if p.opts.on_disk { (5, 3, 0, 3, 0) } else { (5, 3, 0, 0, 0) };
            p.ops = gen_history(&mut rng, &mut tables, nops, w, 12, true, &mut id);
            // search_column_names on a few patterns
            for t in &tables {
                if rng.below(2) == 0 {
                    let pat = rng.pick(&["a", "l", "_", "z", ""]).to_string();
                    p.ops.push(Op::SearchColumns { table: t.name.clone(), pattern: pat });
                }
            }
            p
        }
        "C15" => {
            let mut p = base_plan(prop, "history", seed, &mut rng);
            p.opts.on_disk = true;
            p.opts.max_partition_size_bytes = *rng.pick(&[1u64, 1, 40, 120, 400, 8 * 1024 * 1024]);
            p.opts.partition_combine_factor = *rng.pick(&[0u64, 1, 4, 999]);
            p.extras.push(Extra::FsMonitors);
            p.check_each = false;
            let cpool = hostile_col_names();
            let tpool = hostile_table_names();
            let nt = 1 + rng.below(3) as usize;
            let mut tables = gen_tables(&mut rng, nt, &tpool, &cpool, 8);
            let mut id = 1;
            let nops = 2 + rng.below(5) as usize;
            let subset = rng.below(2) == 0;
            p.ops = gen_history(&mut rng, &mut tables, nops, (5, 4, 0, 1, 0), 10, subset, &mut id);
            p.ops.push(Op::Flush);
            p.ops.push(Op::Restart);
            // cold reads of every name in the pool: stored columns and absent ones
            for t in &tables {
                let mut names = cpool.clone();
                rng.shuffle(&mut names);
                let present: Vec<String> = t.schema.iter().map(|c| c.name.clone()).collect();
                let mut k = 0;
                for n in present.iter().chain(names.iter()) {
                    if n.contains('"') {
                        continue;
                    }
                    p.ops.push(Op::ReadColumn { table: t.name.clone(), column: n.clone() });
                    k += 1;
                    if k > present.len() + 6 {
                        break;
                    }
                }
            }
            p.ops.push(Op::CheckAll);
            p
        }
        "C18" => {
            let mut p = base_plan(prop, "history", seed, &mut rng);
            p.opts.on_disk = true;
            p.opts.partition_combine_factor = *rng.pick(&[0u64, 1, 2, 4, 999]);
            p.opts.max_partition_size_bytes = *rng.pick(&[1u64, 100, 8 * 1024 * 1024]);
            p.opts.io_threads = *rng.pick(&[1usize, 4]);
            p.opts.wal_threads = *rng.pick(&[1usize, 2]);
            p.extras.push(Extra::NoGarbage);
            p.check_each = false;
            p.max_steps = 20_000_000;
            let liveness = rng.below(3) == 0;
            if liveness {
                // ingestion is held back by the log-size limit until the background flush runs
                p.opts.max_wal_size_bytes = *rng.pick(&[1u64, 50, 400]);
                p.knobs.insert("liveness".into(), 1);
            }
            let nt = 1 + rng.below(2) as usize;
            let mut tables = gen_tables(&mut rng, nt, &tnames(3), &plain_names(), 4);
            let mut id = 1;
            let cycles = if rng.below(10) == 0 { 30 } else { 2 + rng.below(6) as usize };
            for _ in 0..cycles {
                let k = 1 + rng.below(3);
                for _ in 0..k {
                    p.ops.push(Op::Ingest(gen_request(&mut rng, id, &mut tables, 10, false, false)));
                    id += 1;
                }
                if liveness && rng.below(2) == 0 {
                    p.ops.push(Op::Sleep(1500));
                }
                p.ops.push(Op::Flush);
            }
            p.ops.push(Op::CheckAll);
            p
        }
        _ => panic!("no generator for property {prop}"),
    }
}

fn plan_names(plan: &Plan) -> Vec<String> {
    fn walk(ops: &[Op], out: &mut Vec<String>) {
        for op in ops {
            match op {
                Op::Ingest(r) => {
                    for t in &r.tables {
                        out.push(t.table.clone());
                        for c in &t.cols {
                            out.push(c.name.clone());
                        }
                    }
                }
                Op::Concurrent(cs) => {
                    for c in cs {
                        let ops: Vec<Op> = c.ops.iter().map(|o| o.op.clone()).collect();
                        walk(&ops, out);
                    }
                }
                _ => {}
            }
        }
    }
    let mut v = Vec::new();
    walk(&plan.ops, &mut v);
    v
}

pub fn run_plan(plan: &Plan) -> RunResult {
    crate::env::register_name_words(plan_names(plan));
    match plan.profile.as_str() {
        "history" => crate::exec::run_history(plan),
        other => panic!("unknown profile {other}"),
    }
}
