//! Per-property workload generators ("profiles"): how the one simulator is pointed at each property.

use crate::env::OptsSpec;
use crate::gen::*;
use crate::model::*;
use crate::plan::*;
use crate::sched::SchedSpec;
use locustdb_simrt::core::Rng;
use std::collections::BTreeMap;

pub const CLAIMED: &[&str] = &["C01", "C02", "C03", "C04", "C05", "C06", "C07", "C08", "C09", "C10", "C11", "C12", "C13", "C14", "C15", "C17", "C18"];

pub fn mix_seed(base: u64, prop: &str, i: u64) -> u64 {
    let mut h = 0xcbf29ce484222325u64 ^ base.wrapping_mul(0x9E3779B97F4A7C15);
    for b in prop.bytes() {
        h ^= b as u64;
        h = h.wrapping_mul(0x100000001b3);
    }
    h ^= i.wrapping_mul(0xD1B54A32D192ED03);
    h = (h ^ (h >> 31)).wrapping_mul(0x7FB5D329728EA185);
    h ^ (h >> 29)
}

fn base_plan(prop: &str, profile: &str, seed: u64, rng: &mut Rng) -> Plan {
    Plan {
        prop: prop.to_string(),
        profile: profile.to_string(),
        seed,
        sched: SchedSpec::generate(rng),
        opts: OptsSpec::generate(rng),
        ops: Vec::new(),
        check_each: true,
        extras: Vec::new(),
        strict_types: false,
        max_steps: crate::sim::DEFAULT_MAX_STEPS,
        knobs: BTreeMap::new(),
        alt: None,
    }
}

fn plain_names() -> Vec<String> {
    PLAIN_NAMES.iter().map(|s| s.to_string()).collect()
}

struct TableGen {
    name: String,
    schema: Vec<ColSpec>,
    rows_so_far: u64,
    with_id: bool,
}

fn pick_path(rng: &mut Rng) -> IngestPath {
    match rng.below(10) {
        0..=4 => IngestPath::Native,
        5..=6 => IngestPath::NativeWire,
        _ => IngestPath::Wire,
    }
}

fn gen_request(rng: &mut Rng, id: u32, tables: &mut [TableGen], max_rows: usize, subset_cols: bool, all_tables: bool) -> Request {
    let mut tbs = Vec::new();
    let n = tables.len();
    let forced = rng.below(n as u64) as usize;
    for (i, t) in tables.iter_mut().enumerate() {
        if !(all_tables || i == forced || rng.below(2) == 0) {
            continue;
        }
        let rows = gen_len(rng, max_rows);
        let id_base = if t.with_id { Some(id as i64 * 100_000 + t.rows_so_far as i64) } else { None };
        let tb = gen_table_batch(rng, &t.name, &t.schema, rows, t.rows_so_far, id_base, subset_cols);
        t.rows_so_far += rows as u64;
        tbs.push(tb);
    }
    Request { id, path: pick_path(rng), tables: tbs }
}

fn gen_tables(rng: &mut Rng, ntables: usize, table_names: &[String], col_names: &[String], max_cols: usize) -> Vec<TableGen> {
    let mut names = table_names.to_vec();
    rng.shuffle(&mut names);
    names.truncate(ntables);
    names
        .into_iter()
        .map(|name| {
            let ncols = 1 + rng.below(max_cols as u64) as usize;
            TableGen { name, schema: gen_schema(rng, ncols, col_names), rows_so_far: 0, with_id: rng.below(2) == 0 }
        })
        .collect()
}

/// weights: (ingest, flush, evict, restart, sleep)
fn gen_history(rng: &mut Rng, tables: &mut [TableGen], nops: usize, w: (u64, u64, u64, u64, u64), max_rows: usize, subset_cols: bool, next_id: &mut u32) -> Vec<Op> {
    let total = w.0 + w.1 + w.2 + w.3 + w.4;
    let mut ops = Vec::new();
    // always start with data
    ops.push(Op::Ingest(gen_request(rng, *next_id, tables, max_rows, subset_cols, false)));
    *next_id += 1;
    while ops.len() < nops {
        let r = rng.below(total);
        let op = if r < w.0 {
            let q = Op::Ingest(gen_request(rng, *next_id, tables, max_rows, subset_cols, false));
            *next_id += 1;
            q
        } else if r < w.0 + w.1 {
            Op::Flush
        } else if r < w.0 + w.1 + w.2 {
            Op::Evict
        } else if r < w.0 + w.1 + w.2 + w.3 {
            Op::Restart
        } else {
            Op::Sleep(*rng.pick(&[300u64, 1100, 2500]))
        };
        ops.push(op);
    }
    ops
}

fn tnames(n: usize) -> Vec<String> {
    (0..n).map(|i| format!("t{i}")).collect()
}

pub fn gen_plan(prop: &str, seed: u64) -> Plan {
    let mut rng = Rng::new(seed);
    // one plan in sixteen may draw value classes that trigger the open findings
    let mut spicy = rng.below(16) == 0;
    // (triage aid: LSIM_SPICY=0 / 1 forces the choice)
    match std::env::var("LSIM_SPICY").ok().as_deref() {
        Some("0") => spicy = false,
        Some("1") => spicy = true,
        _ => {}
    }
    set_spicy(spicy);
    set_packed_strings_ok(false);
    let mut plan = gen_plan_inner(prop, seed, &mut rng);
    plan.knobs.insert("spicy".into(), spicy as i64);
    // The thorough tier explores more plans and, where a plan bounds an enumeration, also deeper
    // ones: more crash images per primary run and deeper nesting (C09), more files and more
    // damages per file (C14). (The tier reaches the workers through the environment; a replay file
    // carries the whole plan, knobs included.)
    if std::env::var("LSIM_TIER").ok().as_deref() == Some("thorough") {
        for (k, v) in [("max_images", 400i64), ("nested_per_image", 4), ("rot_files", 2), ("rot_max_damage", 1500)] {
            if plan.knobs.contains_key(k) {
                plan.knobs.insert(k.into(), v);
            }
        }
    }
    plan
}

fn gen_plan_inner(prop: &str, seed: u64, rng: &mut Rng) -> Plan {
    let mut rng = rng.fork();
    match prop {
        "C01" => {
            let mut p = base_plan(prop, "history", seed, &mut rng);
            p.opts.on_disk = rng.below(5) != 0;
            if rng.below(3) == 0 {
                // no compaction: every string class (packed, hex, long) can be stored and re-read
                p.opts.partition_combine_factor = 999;
            }
            set_packed_strings_ok(p.opts.partition_combine_factor == 999);
            let nt = 1 + rng.below(2) as usize;
            let mut tables = gen_tables(&mut rng, nt, &tnames(3), &plain_names(), 5);
            let mut id = 1;
            let nops = 2 + rng.below(6) as usize;
            let w = if p.opts.on_disk { (5, 3, 1, 2, 0) } else { (5, 3, 0, 0, 0) };
            let max_rows = *rng.pick(&[12usize, 40, 70, 130]);
            p.ops = gen_history(&mut rng, &mut tables, nops, w, max_rows, true, &mut id);
            p
        }
        "C07" => {
            let mut p = base_plan(prop, "history", seed, &mut rng);
            p.opts.on_disk = true;
            // compaction merges 1..k partitions at every flush
            p.opts.partition_combine_factor = *rng.pick(&[0u64, 1, 2, 4, 999]);
            if rng.below(3) == 0 {
                // background maintenance on the simulated clock
                p.opts.max_wal_size_bytes = *rng.pick(&[1u64, 300, 2000]);
                p.opts.max_wal_files = *rng.pick(&[0usize, 1, 2]);
            }
            let nt = 1 + rng.below(2) as usize;
            let mut tables = gen_tables(&mut rng, nt, &tnames(3), &plain_names(), 5);
            let mut id = 1;
            let nops = 4 + rng.below(9) as usize;
            p.ops = gen_history(&mut rng, &mut tables, nops, (4, 4, 2, 1, 1), 30, true, &mut id);
            p
        }
        "C08" => {
            let mut p = base_plan(prop, "history", seed, &mut rng);
            p.opts.on_disk = true;
            p.opts.io_threads = *rng.pick(&[1usize, 4]);
            if rng.below(3) == 0 {
                p.opts.max_wal_size_bytes = *rng.pick(&[1u64, 500, 4000]);
                p.opts.max_wal_files = *rng.pick(&[0usize, 1, 3]);
            }
            if rng.below(4) == 0 {
                // Variant: the flush (forced by a maintenance client, or the background one) overlaps
                // requests that are being acknowledged — each client ingests into tables of its own,
                // some of which it creates on the way, with ops placed at the step boundaries of the
                // flush — then everything quiesces, the database is restarted cleanly and must show
                // every acknowledged request. (What is or is not yet covered by a partition when the
                // cursor is persisted is decided under exactly these overlaps.)
                p.check_each = false;
                p.opts.wal_threads = *rng.pick(&[1usize, 2]);
                p.opts.partition_combine_factor = *rng.pick(&[0u64, 1, 4, 999]);
                let mut id = 1;
                let mut shared = gen_tables(&mut rng, 1, &["s0".to_string()], &plain_names(), 3);
                for t in shared.iter_mut() {
                    t.with_id = true;
                }
                p.ops.push(Op::Ingest(gen_request(&mut rng, id, &mut shared, 8, false, true)));
                id += 1;
                if rng.below(2) == 0 {
                    p.ops.push(Op::Flush);
                }
                let mut clients = Vec::new();
                let nclients = 1 + rng.below(2) as usize;
                for c in 0..nclients {
                    let names: Vec<String> = (0..3).map(|k| format!("c{c}t{k}")).collect();
                    let mut mine = gen_tables(&mut rng, 3, &names, &plain_names(), 3);
                    for t in mine.iter_mut() {
                        t.with_id = true;
                    }
                    let mut ops = Vec::new();
                    for _ in 0..(2 + rng.below(4)) {
                        ops.push(ClientOp { at: placement(&mut rng), op: Op::Ingest(gen_request(&mut rng, id, &mut mine, 6, false, false)) });
                        id += 1;
                    }
                    clients.push(ClientPlan { name: format!("ingest{c}"), ops });
                }
                let mut ops = Vec::new();
                for _ in 0..(1 + rng.below(3)) {
                    ops.push(ClientOp { at: if rng.below(2) == 0 { placement(&mut rng) } else { None }, op: Op::Flush });
                }
                clients.push(ClientPlan { name: "maint".into(), ops });
                p.ops.push(Op::Concurrent(clients));
                p.ops.push(Op::CheckAll);
                p.ops.push(Op::Restart);
                p.ops.push(Op::CheckAll);
                if rng.below(2) == 0 {
                    p.ops.push(Op::Flush);
                    p.ops.push(Op::Restart);
                    p.ops.push(Op::CheckAll);
                }
                return p;
            }
            p.extras.push(Extra::WalFiles);
            let nt = 1 + rng.below(3) as usize;
            let mut tables = gen_tables(&mut rng, nt, &tnames(4), &plain_names(), 4);
            let mut id = 1;
            let nops = 3 + rng.below(13) as usize;
            p.ops = gen_history(&mut rng, &mut tables, nops, (5, 2, 0, 4, 1), 20, false, &mut id);
            // every history ends with a restart so that the last state is read back from disk
            p.ops.push(Op::Restart);
            p
        }
        "C13" => {
            let mut p = base_plan(prop, "history", seed, &mut rng);
            p.opts.on_disk = rng.below(6) != 0;
            p.opts.partition_combine_factor = *rng.pick(&[0u64, 1, 4, 999]);
            let pool = hostile_col_names();
            let nt = 1 + rng.below(2) as usize;
            let mut tables = gen_tables(&mut rng, nt, &tnames(3), &pool, 7);
            let mut id = 1;
            let nops = 3 + rng.below(8) as usize;
            let w = if p.opts.on_disk { (5, 3, 0, 3, 0) } else { (5, 3, 0, 0, 0) };
            p.ops = gen_history(&mut rng, &mut tables, nops, w, 12, true, &mut id);
            // search_column_names on a few patterns
            for t in &tables {
                if rng.below(2) == 0 {
                    let pat = rng.pick(&["a", "l", "_", "z", ""]).to_string();
                    p.ops.push(Op::SearchColumns { table: t.name.clone(), pattern: pat });
                }
            }
            p
        }
        "C15" => {
            let mut p = base_plan(prop, "history", seed, &mut rng);
            p.opts.on_disk = true;
            p.opts.max_partition_size_bytes = *rng.pick(&[1u64, 1, 40, 120, 400, 8 * 1024 * 1024]);
            p.opts.partition_combine_factor = *rng.pick(&[0u64, 1, 4, 999]);
            p.extras.push(Extra::FsMonitors);
            p.check_each = false;
            let cpool = hostile_col_names();
            let tpool = hostile_table_names();
            let nt = 1 + rng.below(3) as usize;
            let mut tables = gen_tables(&mut rng, nt, &tpool, &cpool, 8);
            let mut id = 1;
            let nops = 2 + rng.below(5) as usize;
            let subset = rng.below(2) == 0;
            p.ops = gen_history(&mut rng, &mut tables, nops, (5, 4, 0, 1, 0), 10, subset, &mut id);
            p.ops.push(Op::Flush);
            p.ops.push(Op::Restart);
            // cold reads of every name in the pool: stored columns and absent ones
            for t in &tables {
                let mut names = cpool.clone();
                rng.shuffle(&mut names);
                let present: Vec<String> = t.schema.iter().map(|c| c.name.clone()).collect();
                let mut k = 0;
                for n in present.iter().chain(names.iter()) {
                    if n.contains('"') {
                        continue;
                    }
                    p.ops.push(Op::ReadColumn { table: t.name.clone(), column: n.clone() });
                    k += 1;
                    if k > present.len() + 6 {
                        break;
                    }
                }
            }
            p.ops.push(Op::CheckAll);
            p
        }
        "C18" => {
            let mut p = base_plan(prop, "history", seed, &mut rng);
            p.opts.on_disk = true;
            p.opts.partition_combine_factor = *rng.pick(&[0u64, 1, 2, 4, 999]);
            p.opts.max_partition_size_bytes = *rng.pick(&[1u64, 100, 8 * 1024 * 1024]);
            p.opts.io_threads = *rng.pick(&[1usize, 4]);
            p.opts.wal_threads = *rng.pick(&[1usize, 2]);
            p.extras.push(Extra::NoGarbage);
            p.check_each = false;
            p.max_steps = 20_000_000;
            let liveness = rng.below(3) == 0;
            if liveness {
                // ingestion is held back by the log-size limit until the background flush runs
                p.opts.max_wal_size_bytes = *rng.pick(&[1u64, 50, 400]);
                p.knobs.insert("liveness".into(), 1);
            }
            let nt = 1 + rng.below(2) as usize;
            let mut tables = gen_tables(&mut rng, nt, &tnames(3), &plain_names(), 4);
            let mut id = 1;
            // WAL segments per flush vary per plan from a handful to dozens (segment deletion and
            // partition writing fan out over the io pool in slices)
            let burst = *rng.pick(&[3u64, 3, 3, 8, 20, 40]);
            let cycles = if rng.below(10) == 0 && burst <= 3 { 30 } else if burst > 8 { 1 + rng.below(3) as usize } else { 2 + rng.below(6) as usize };
            for _ in 0..cycles {
                let k = 1 + rng.below(burst);
                for _ in 0..k {
                    p.ops.push(Op::Ingest(gen_request(&mut rng, id, &mut tables, if burst > 8 { 4 } else { 10 }, false, false)));
                    id += 1;
                }
                if liveness && rng.below(2) == 0 {
                    p.ops.push(Op::Sleep(1500));
                }
                p.ops.push(Op::Flush);
            }
            p.ops.push(Op::CheckAll);
            p
        }
        "C09" => {
            let mut p = base_plan(prop, "crash", seed, &mut rng);
            p.opts.on_disk = true;
            p.opts.io_threads = *rng.pick(&[1usize, 1, 4]);
            p.opts.wal_threads = *rng.pick(&[1usize, 2]);
            p.opts.partition_combine_factor = *rng.pick(&[0u64, 1, 4, 999]);
            p.opts.max_partition_size_bytes = *rng.pick(&[1u64, 200, 8 * 1024 * 1024]);
            p.opts.threads = *rng.pick(&[1usize, 2, 2]);
            if rng.below(5) == 0 {
                p.opts.max_wal_size_bytes = *rng.pick(&[1u64, 600]);
            }
            p.check_each = false;
            p.extras.push(Extra::CrashEnum);
            let nt = 1 + rng.below(2) as usize;
            let mut tables = gen_tables(&mut rng, nt, &tnames(3), &plain_names(), 3);
            for t in tables.iter_mut() {
                t.with_id = true;
            }
            let mut id = 1;
            let nops = 2 + rng.below(6) as usize;
            p.ops = gen_history(&mut rng, &mut tables, nops, (5, 4, 0, 1, 0), 8, false, &mut id);
            p.knobs.insert("max_images".into(), 160);
            p.knobs.insert("nested_per_image".into(), 2);
            p
        }
        "C14" => {
            let mut p = base_plan(prop, "rot", seed, &mut rng);
            p.opts.on_disk = true;
            p.opts.partition_combine_factor = *rng.pick(&[0u64, 4, 999]);
            p.opts.max_partition_size_bytes = *rng.pick(&[1u64, 150, 8 * 1024 * 1024]);
            p.opts.threads = 2;
            p.check_each = false;
            p.extras.push(Extra::Rot);
            set_packed_strings_ok(p.opts.partition_combine_factor == 999);
            let nt = 1 + rng.below(2) as usize;
            let mut tables = gen_tables(&mut rng, nt, &tnames(3), &plain_names(), 4);
            let mut id = 1;
            let nops = 2 + rng.below(4) as usize;
            p.ops = gen_history(&mut rng, &mut tables, nops, (5, 4, 0, 1, 0), 12, true, &mut id);
            // at rest there is at least one partition file, the catalogue and one log segment
            p.ops.push(Op::Flush);
            p.ops.push(Op::Ingest(gen_request(&mut rng, id, &mut tables, 6, true, false)));
            p.knobs.insert("rot_files".into(), 1);
            p.knobs.insert("rot_max_damage".into(), 500);
            p
        }
        "C02" | "C03" | "C04" | "C05" | "C06" => gen_query_plan(prop, seed, &mut rng),
        "C10" => gen_c10(seed, &mut rng),
        "C11" => gen_c11(seed, &mut rng, false),
        "C12" => gen_c11(seed, &mut rng, true),
        "C17" => gen_c17(seed, &mut rng),
        _ => panic!("no generator for property {prop}"),
    }
}

fn plan_names(plan: &Plan) -> Vec<String> {
    fn walk(ops: &[Op], out: &mut Vec<String>) {
        for op in ops {
            match op {
                Op::Ingest(r) => {
                    for t in &r.tables {
                        out.push(t.table.clone());
                        for c in &t.cols {
                            out.push(c.name.clone());
                        }
                    }
                }
                Op::Concurrent(cs) => {
                    for c in cs {
                        let ops: Vec<Op> = c.ops.iter().map(|o| o.op.clone()).collect();
                        walk(&ops, out);
                    }
                }
                _ => {}
            }
        }
    }
    let mut v = Vec::new();
    walk(&plan.ops, &mut v);
    v
}

pub fn run_plan(plan: &Plan) -> RunResult {
    crate::env::register_name_words(plan_names(plan));
    match plan.profile.as_str() {
        "history" => crate::exec::run_history(plan),
        "crash" => crate::exec_crash::run_crash(plan),
        "rot" => crate::exec_crash::run_rot(plan),
        other => panic!("unknown profile {other}"),
    }
}


pub const SYNC_LABELS: &[&str] = &[
    "flush:start",
    "flush:after_freeze",
    "flush:after_batch",
    "flush:after_batching",
    "flush:after_persist_partitions",
    "compact:start",
    "compact:after_build_columns",
    "compact:after_table_compact",
    "compact:after_prepare_compact",
    "flush:after_compaction",
    "flush:after_persist_metastore",
    "flush:after_delete_partitions",
    "flush:after_delete_wal",
    "ingest:after_wal_spawn",
    "ingest:before_table",
    "ingest:after_tables",
    "wal:after_id_assigned",
    "load:before_read",
    "load:after_read",
    "query:after_get_cols",
];

/// a batch for the prefix oracle: ids = request * 1000 + index, plus a payload column
fn prefix_request(rng: &mut Rng, id: u32, tables: &[&str]) -> Request {
    let mut tbs = Vec::new();
    for t in tables {
        let rows = 1 + rng.below(6) as usize;
        let mut cols = vec![ColBatch { name: "id".into(), cells: (0..rows).map(|i| Cell::I(id as i64 * 1000 + i as i64)).collect(), repr: Repr::Typed }];
        match rng.below(3) {
            0 => cols.push(ColBatch { name: "v".into(), cells: (0..rows).map(|_| Cell::I(rng.range(-50, 50))).collect(), repr: Repr::Typed }),
            1 => cols.push(ColBatch { name: "s".into(), cells: (0..rows).map(|_| Cell::S(format!("k{}", rng.below(3)))).collect(), repr: Repr::Typed }),
            _ => {}
        }
        tbs.push(TableBatch { table: t.to_string(), rows, cols });
    }
    Request { id, path: if rng.below(3) == 0 { IngestPath::NativeWire } else { IngestPath::Native }, tables: tbs }
}

fn prefix_query(rng: &mut Rng, table: &str) -> String {
    match rng.below(6) {
        0..=2 => format!("SELECT id FROM \"{table}\""),
        3 => format!("SELECT COUNT(1), SUM(id) FROM \"{table}\""),
        // an absent column plants placeholder handles in the partitions it touches
        4 => format!("SELECT nosuchcol, id FROM \"{table}\""),
        _ => format!("SELECT v, id FROM \"{table}\""),
    }
}

fn placement(rng: &mut Rng) -> Option<(String, u64, u32)> {
    if rng.below(2) == 0 {
        None
    } else {
        Some((rng.pick(SYNC_LABELS).to_string(), 1 + rng.below(3), *rng.pick(&[20u32, 100, 400])))
    }
}

fn gen_c10(seed: u64, rng: &mut Rng) -> Plan {
    let mut p = base_plan("C10", "history", seed, rng);
    p.opts.on_disk = true;
    p.opts.threads = *rng.pick(&[1usize, 2, 3]);
    p.opts.partition_combine_factor = *rng.pick(&[0u64, 1, 4, 999]);
    p.opts.wal_threads = *rng.pick(&[1usize, 2]);
    p.opts.io_threads = *rng.pick(&[1usize, 4]);
    p.opts.max_partition_size_bytes = *rng.pick(&[1u64, 8 * 1024 * 1024, 8 * 1024 * 1024]);
    if rng.below(4) == 0 {
        p.opts.max_wal_size_bytes = *rng.pick(&[1u64, 300]);
    }
    p.check_each = false;
    let tables = ["t0", "t1"];
    let mut id: u32 = 1;
    // sequential prologue: some history, old partitions possibly non-resident
    for k in 0..(1 + rng.below(3)) {
        // (both tables exist before the concurrent phase)
        let nt = if k == 0 { 2 } else { 1 + rng.below(2) as usize };
        p.ops.push(Op::Ingest(prefix_request(rng, id, &tables[..nt])));
        id += 1;
        if rng.below(2) == 0 {
            p.ops.push(Op::Flush);
        }
    }
    if rng.below(2) == 0 {
        p.ops.push(Op::Restart);
    }
    p.ops.push(Op::CheckAll);
    // concurrent phase
    let mut clients = Vec::new();
    let n_ing = 1 + rng.below(2);
    for c in 0..n_ing {
        let mut ops = Vec::new();
        for _ in 0..(1 + rng.below(3)) {
            let nt = 1 + rng.below(2) as usize;
            let at = placement(rng);
            ops.push(ClientOp { at, op: Op::Ingest(prefix_request(rng, id, &tables[..nt])) });
            id += 1;
        }
        clients.push(ClientPlan { name: format!("ingest{c}"), ops });
    }
    let n_q = 1 + rng.below(2);
    for c in 0..n_q {
        let mut ops = Vec::new();
        for _ in 0..(1 + rng.below(4)) {
            let t = tables[rng.below(2) as usize];
            ops.push(ClientOp { at: placement(rng), op: Op::RawQuery(prefix_query(rng, t)) });
        }
        clients.push(ClientPlan { name: format!("query{c}"), ops });
    }
    {
        let mut ops = Vec::new();
        for _ in 0..(1 + rng.below(3)) {
            let op = if spicy() && rng.below(3) == 0 { Op::Evict } else { Op::Flush };
            ops.push(ClientOp { at: if rng.below(3) == 0 { placement(rng) } else { None }, op });
        }
        clients.push(ClientPlan { name: "maint".into(), ops });
    }
    p.ops.push(Op::Concurrent(clients));
    p.ops.push(Op::CheckAll);
    p
}

/// C11 (requests of every kind, canaries) and C12 (arbitrary query strings)
fn gen_c11(seed: u64, rng: &mut Rng, strings_only: bool) -> Plan {
    let mut p = base_plan(if strings_only { "C12" } else { "C11" }, "history", seed, rng);
    p.opts.on_disk = rng.below(4) != 0;
    p.knobs.insert("failing_requests_expected".into(), 1);
    p.opts.threads = *rng.pick(&[1usize, 1, 2, 3, 8]);
    p.opts.partition_combine_factor = *rng.pick(&[1u64, 4, 999, 999]);
    p.check_each = false;
    // a small multi-partition database
    let mut id: u32 = 1;
    let parts = 2 + rng.below(3);
    for part in 0..parts {
        let rows = 2 + rng.below(6) as usize;
        let mk = |rng: &mut Rng, id: u32| {
            let cols = vec![
                ColBatch { name: "id".into(), cells: (0..rows).map(|i| Cell::I(id as i64 * 1000 + i as i64)).collect(), repr: Repr::Typed },
                ColBatch { name: "n".into(), cells: (0..rows).map(|_| if rng.below(5) == 0 { Cell::N } else { Cell::I(rng.range(-5, 300)) }).collect(), repr: Repr::Typed },
                ColBatch { name: "f".into(), cells: (0..rows).map(|_| Cell::f(rng.range(-400, 400) as f64 / 4.0)).collect(), repr: Repr::Typed },
                ColBatch { name: "s".into(), cells: (0..rows).map(|_| Cell::S(format!("k{}", rng.below(3)))).collect(), repr: Repr::Typed },
                // sums of `big` fit in one partition and overflow only when partial results are
                // merged: a request that fails in the merge step, not in a partition
                // (one large value per partition, a larger one in the last: every partition sums up fine,
                // so do the first two together, the total does not)
                ColBatch { name: "big".into(), cells: (0..rows).map(|i| Cell::I(if i > 0 { rng.range(0, 1000) } else if part + 1 == parts { (1i64 << 62) + (1i64 << 61) } else { 1i64 << 61 })).collect(), repr: Repr::Typed },
            ];
            TableBatch { table: "t0".into(), rows, cols }
        };
        let tb = mk(rng, id);
        p.ops.push(Op::Ingest(Request { id, path: IngestPath::Native, tables: vec![tb] }));
        id += 1;
        if p.opts.on_disk || rng.below(2) == 0 {
            p.ops.push(Op::Flush);
        }
    }
    // the canary table: written once, never again
    let canary_rows = 3 + rng.below(4) as usize;
    p.ops.push(Op::Ingest(Request {
        id,
        path: IngestPath::Native,
        tables: vec![TableBatch { table: "canary".into(), rows: canary_rows, cols: vec![ColBatch { name: "id".into(), cells: (0..canary_rows).map(|i| Cell::I(i as i64)).collect(), repr: Repr::Typed }] }],
    }));
    id += 1;
    p.knobs.insert("canary_rows".into(), canary_rows as i64);
    if p.opts.on_disk && rng.below(3) == 0 {
        p.ops.push(Op::Restart);
    }
    let info = crate::sqlgen::TableInfo { name: "t0".into(), int_cols: vec!["id".into(), "n".into(), "big".into()], float_cols: vec!["f".into()], str_cols: vec!["s".into()] };
    let nclients = 1 + rng.below(3) as usize;
    let mut clients = Vec::new();
    for c in 0..nclients {
        let mut ops = Vec::new();
        let nreq = if strings_only { 8 + rng.below(14) } else { 4 + rng.below(10) };
        for _ in 0..nreq {
            let op = if strings_only {
                Op::RawQuery(crate::sqlgen::any_query(rng, &info))
            } else {
                match rng.below(12) {
                    0..=3 => Op::RawQuery(crate::sqlgen::supported(rng, &info)),
                    4..=6 => Op::RawQuery(crate::sqlgen::unsupported_or_failing(rng, &info)),
                    7 => {
                        let base = crate::sqlgen::supported(rng, &info);
                        Op::RawQuery(crate::sqlgen::mutate(rng, &base))
                    }
                    8 => {
                        let r = Request { id, path: IngestPath::Native, tables: vec![TableBatch { table: "t1".into(), rows: 2, cols: vec![ColBatch { name: "id".into(), cells: vec![Cell::I(id as i64 * 1000), Cell::I(id as i64 * 1000 + 1)], repr: Repr::Typed }] }] };
                        id += 1;
                        Op::Ingest(r)
                    }
                    9 => Op::Flush,
                    10 => Op::Stats,
                    _ => Op::MemTree,
                }
            };
            ops.push(ClientOp { at: None, op });
            // a canary after every request: the database still answers, and correctly
            ops.push(ClientOp { at: None, op: Op::RawQuery("SELECT COUNT(1) FROM canary".into()) });
        }
        clients.push(ClientPlan { name: format!("client{c}"), ops });
    }
    p.ops.push(Op::Concurrent(clients));
    // afterwards everything still works: flush thread answers, content intact
    p.ops.push(Op::Flush);
    p.ops.push(Op::CheckAll);
    p
}


/// Not a check: a fixed plan that takes every error path and every endpoint once, so that
/// process-global state built at first use (backtrace symbol caches behind `fatal!`, prometheus
/// registrations, planner registries, actix / ahash / regex statics) exists before anything is
/// measured. Building it creates HashMaps, which advances the per-thread hash-key counter of the
/// run that happens to be first: without this, one run in a hundred differed between a fresh
/// process and a long-lived worker.
pub fn warm_up_plan() -> Plan {
    use crate::plan::HttpEndpoint as E;
    let mut rng = Rng::new(0x57A2_7000);
    let mut p = base_plan("C12", "history", 0x57A2_7000, &mut rng);
    p.opts = OptsSpec::defaults();
    p.opts.on_disk = true;
    p.opts.threads = 2;
    p.knobs.insert("failing_requests_expected".into(), 1);
    p.check_each = false;
    for id in 1..=2u32 {
        let cols = vec![
            ColBatch { name: "id".into(), cells: (0..4).map(|i| Cell::I(id as i64 * 1000 + i)).collect(), repr: Repr::Typed },
            ColBatch { name: "n".into(), cells: vec![Cell::I(1), Cell::N, Cell::I(300), Cell::I(7)], repr: Repr::Typed },
            ColBatch { name: "f".into(), cells: (0..4).map(|i| Cell::f(i as f64 / 4.0)).collect(), repr: Repr::Typed },
            ColBatch { name: "s".into(), cells: (0..4).map(|i| Cell::S(format!("k{}", i % 2))).collect(), repr: Repr::Typed },
            ColBatch { name: "big".into(), cells: (0..4).map(|i| Cell::I((1i64 << 61) + i)).collect(), repr: Repr::Typed },
        ];
        p.ops.push(Op::Ingest(Request { id, path: if id == 1 { IngestPath::Native } else { IngestPath::Http }, tables: vec![TableBatch { table: "t0".into(), rows: 4, cols }] }));
        p.ops.push(Op::Flush);
    }
    p.ops.push(Op::Restart);
    p.ops.push(Op::CheckAll);
    let info = crate::sqlgen::TableInfo { name: "t0".into(), int_cols: vec!["id".into(), "n".into(), "big".into()], float_cols: vec!["f".into()], str_cols: vec!["s".into()] };
    let endpoints = [E::Query, E::QueryCols, E::MultiJson, E::MultiBin, E::MultiBinXor];
    let mut k = 0;
    for c in ["n", "big", "s"] {
        for sql in crate::sqlgen::all_unsupported_or_failing(c, &info) {
            p.ops.push(Op::RawQuery(sql.clone()));
            if k % 3 == 0 {
                p.ops.push(Op::HttpRawQuery { endpoint: endpoints[(k / 3) % endpoints.len()], sql });
            }
            k += 1;
        }
    }
    for _ in 0..40 {
        let sql = crate::sqlgen::supported(&mut rng, &info);
        p.ops.push(Op::RawQuery(sql.clone()));
        p.ops.push(Op::HttpRawQuery { endpoint: *rng.pick(&endpoints), sql });
    }
    p.ops.push(Op::HttpColumns { table: "t0".into(), pattern: "".into() });
    p.ops.push(Op::Stats);
    p.ops.push(Op::MemTree);
    p.ops.push(Op::Evict);
    p.ops.push(Op::CheckAll);
    p
}

/// C17: everything goes through the HTTP handlers. A data-rich table `h` (integers beyond 2^53,
/// NULLs, non-finite floats, mixed and all-NULL columns) inserted through /insert_bin and queried
/// on every endpoint and encoding against the embedded answer; failing queries of every kind on
/// every endpoint, each followed by a good one; then clients inserting and querying concurrently
/// (prefix oracle) while a flush runs; then the comparison again.
fn gen_c17(seed: u64, rng: &mut Rng) -> Plan {
    use crate::plan::HttpEndpoint as E;
    let mut p = base_plan("C17", "history", seed, rng);
    p.opts.on_disk = rng.below(3) != 0;
    p.opts.threads = *rng.pick(&[1usize, 1, 2, 3]);
    p.opts.partition_combine_factor = *rng.pick(&[1u64, 4, 999]);
    p.knobs.insert("failing_requests_expected".into(), 1);
    p.check_each = false;
    let endpoints = [E::Query, E::QueryCols, E::MultiJson, E::MultiBin, E::MultiBinXor];
    let mut id: u32 = 1;
    // --- the table h
    let big = *rng.pick(&[ColClass::IntFull, ColClass::IntU32Offset, ColClass::IntNeg]);
    let fcls = *rng.pick(&[ColClass::FloatDyadic, ColClass::FloatSpecial, ColClass::FloatWide, ColClass::FloatF32]);
    // (packed string columns cannot be compacted, see known findings: only when nothing compacts)
    let scls = if p.opts.partition_combine_factor == 999 || spicy() { *rng.pick(&[ColClass::StrLowCard, ColClass::StrUnicode, ColClass::StrEmptyish]) } else { ColClass::StrLowCard };
    let mut schema: Vec<(&str, ColClass, NullPattern)> = vec![
        ("big", big, NullPattern::None),
        ("n", ColClass::IntU8, *rng.pick(&[NullPattern::None, NullPattern::Some, NullPattern::Most])),
        ("g", ColClass::IntU8, NullPattern::None),
        ("f", fcls, *rng.pick(&[NullPattern::None, NullPattern::Some])),
        ("s", scls, *rng.pick(&[NullPattern::None, NullPattern::Some])),
    ];
    if rng.below(2) == 0 {
        schema.push(("m", *rng.pick(&[ColClass::MixAny, ColClass::MixIntFloat]), *rng.pick(&[NullPattern::None, NullPattern::Some])));
    }
    if rng.below(4) == 0 {
        schema.push(("z", ColClass::AllNull, NullPattern::None));
    }
    let nreq = 1 + rng.below(3);
    let mut base = 0u64;
    for _ in 0..nreq {
        let rows = 1 + rng.below(12) as usize;
        let mut cols = vec![ColBatch { name: "id".into(), cells: (0..rows).map(|i| Cell::I(base as i64 + i as i64)).collect(), repr: Repr::Typed }];
        for (name, class, np) in &schema {
            cols.push(ColBatch { name: name.to_string(), cells: gen_cells(rng, *class, *np, rows, base), repr: pick_repr(rng) });
        }
        base += rows as u64;
        p.ops.push(Op::Ingest(Request { id, path: IngestPath::Http, tables: vec![TableBatch { table: "h".into(), rows, cols }] }));
        id += 1;
        if rng.below(2) == 0 {
            p.ops.push(Op::Flush);
        }
    }
    if p.opts.on_disk && rng.below(4) == 0 {
        p.ops.push(Op::Restart);
    }
    p.ops.push(Op::CheckAll);
    // --- the same query through the embedded API and through an endpoint
    let colnames: Vec<&str> = std::iter::once("id").chain(schema.iter().map(|c| c.0)).collect();
    let info = crate::sqlgen::TableInfo { name: "h".into(), int_cols: vec!["id".into(), "big".into(), "n".into(), "g".into()], float_cols: vec!["f".into()], str_cols: vec!["s".into()] };
    let nq = 6 + rng.below(10);
    for _ in 0..nq {
        let c = *rng.pick(&colnames);
        let sql = match rng.below(12) {
            0 => "SELECT * FROM \"h\"".to_string(),
            1 => format!("SELECT id, {c} FROM \"h\""),
            2 => format!("SELECT {c} FROM \"h\" ORDER BY id DESC"),
            3 => format!("SELECT {c}, id FROM \"h\" WHERE n > {}", rng.range(-1, 200)),
            4 => "SELECT COUNT(1), SUM(n), MIN(big), MAX(big) FROM \"h\"".to_string(),
            // (grouping by a nullable column has schedule-dependent answers, see known findings)
            5 => format!("SELECT {}, COUNT(1) FROM \"h\"", if spicy() { "n" } else { "g" }),
            6 => format!("SELECT id, {c} FROM \"h\" ORDER BY id LIMIT {}", rng.below(5)),
            7 => "SELECT MIN(f), MAX(f), SUM(f) FROM \"h\"".to_string(),
            8 => format!("SELECT id FROM \"h\" WHERE {c} IS NULL"),
            9..=10 => crate::sqlgen::supported(rng, &info),
            _ => format!("SELECT big + 1, big - 1, id FROM \"h\""),
        };
        p.ops.push(Op::HttpRawQuery { endpoint: *rng.pick(&endpoints), sql });
    }
    p.ops.push(Op::HttpColumns { table: "h".into(), pattern: rng.pick(&["", "i", "zz", "b"]).to_string() });
    // --- several statements in one /multi_query_cols request (statements of different cost and
    // with different column sets: response i must answer statement i)
    for _ in 0..(1 + rng.below(3)) {
        let pool = [
            "SELECT id, big FROM \"h\" ORDER BY big DESC".to_string(),
            "SELECT id FROM \"h\" LIMIT 1".to_string(),
            "SELECT COUNT(1), SUM(g), MIN(big), MAX(big) FROM \"h\"".to_string(),
            "SELECT g, id FROM \"h\" WHERE g > 100".to_string(),
            "SELECT s, f, id FROM \"h\" ORDER BY id DESC LIMIT 3".to_string(),
            "SELECT * FROM \"h\"".to_string(),
            "SELECT id FROM \"h\" WHERE id < 0".to_string(),
        ];
        let k = 2 + rng.below(3) as usize;
        let sqls: Vec<String> = (0..k).map(|_| rng.pick(&pool).clone()).collect();
        p.ops.push(Op::HttpMulti { endpoint: *rng.pick(&[E::MultiJson, E::MultiBin, E::MultiBinXor]), sqls });
    }
    // --- failing requests, each followed by a good one on the same endpoint
    let nf = 2 + rng.below(5);
    for _ in 0..nf {
        let e = *rng.pick(&endpoints);
        let sql = if rng.below(4) == 0 {
            let base = crate::sqlgen::supported(rng, &info);
            crate::sqlgen::mutate(rng, &base)
        } else {
            crate::sqlgen::unsupported_or_failing(rng, &info)
        };
        p.ops.push(Op::HttpRawQuery { endpoint: e, sql });
        p.ops.push(Op::HttpRawQuery { endpoint: e, sql: "SELECT id, n FROM \"h\"".into() });
    }
    // --- concurrent clients on the handlers
    let tables = ["t0", "t1"];
    let mut r0 = prefix_request(rng, id, &tables);
    r0.path = IngestPath::Http;
    p.ops.push(Op::Ingest(r0));
    id += 1;
    let mut clients = Vec::new();
    let n_ing = 1 + rng.below(2);
    for c in 0..n_ing {
        let mut ops = Vec::new();
        for _ in 0..(1 + rng.below(3)) {
            let nt = 1 + rng.below(2) as usize;
            let mut r = prefix_request(rng, id, &tables[..nt]);
            r.path = IngestPath::Http;
            ops.push(ClientOp { at: placement(rng), op: Op::Ingest(r) });
            id += 1;
        }
        clients.push(ClientPlan { name: format!("insert{c}"), ops });
    }
    let n_q = 1 + rng.below(2);
    for c in 0..n_q {
        let mut ops = Vec::new();
        for _ in 0..(1 + rng.below(4)) {
            let t = tables[rng.below(2) as usize];
            let sql = prefix_query(rng, t);
            // (the aggregate form names its columns by expression: ask a JSON endpoint, which carries the order)
            let e = if sql.contains("COUNT(1)") { *rng.pick(&[E::Query, E::QueryCols, E::MultiJson]) } else { *rng.pick(&endpoints) };
            ops.push(ClientOp { at: placement(rng), op: Op::HttpRawQuery { endpoint: e, sql } });
        }
        clients.push(ClientPlan { name: format!("query{c}"), ops });
    }
    if rng.below(2) == 0 {
        clients.push(ClientPlan { name: "maint".into(), ops: vec![ClientOp { at: None, op: Op::Flush }] });
    }
    p.ops.push(Op::Concurrent(clients));
    p.ops.push(Op::CheckAll);
    for t in tables {
        p.ops.push(Op::HttpRawQuery { endpoint: *rng.pick(&endpoints), sql: format!("SELECT * FROM \"{t}\"") });
    }
    p
}

// ---------------------------------------------------------------------------------------------
// query properties (C02-C06): one logical table, seeded physical realisations, generated queries
// ---------------------------------------------------------------------------------------------

const QT: &str = "q";

fn qcols() -> crate::sql::QCols {
    crate::sql::QCols { ints: vec!["id".into(), "i1".into(), "i2".into(), "g".into()], floats: vec!["f1".into()], strs: vec!["s1".into(), "s2".into()] }
}

/// logical rows of the query table: (column name, cells)
fn gen_logical(rng: &mut Rng, prop: &str, nrows: usize) -> Vec<(String, Vec<Cell>)> {
    let mut cols: Vec<(String, Vec<Cell>)> = Vec::new();
    cols.push(("id".into(), (0..nrows).map(|i| Cell::I(i as i64 * 3 + 1)).collect()));
    // i1: small ints with nulls; its magnitude class changes along the table so that partitions differ in encoding
    let seg = 1 + rng.below(nrows as u64) as usize;
    let (c1, c2) = (*rng.pick(&[ColClass::IntU8, ColClass::IntU8Offset, ColClass::IntNeg]), *rng.pick(&[ColClass::IntU8, ColClass::IntU16, ColClass::IntU16Offset, ColClass::IntNeg]));
    let pat = *rng.pick(&[NullPattern::None, NullPattern::Some, NullPattern::Some, NullPattern::Most, NullPattern::Trailing]);
    let mut i1 = gen_cells(rng, c1, pat, seg.min(nrows), 0);
    i1.extend(gen_cells(rng, c2, pat, nrows - seg.min(nrows), seg as u64));
    cols.push(("i1".into(), i1));
    let i2class = match prop {
        "C06" => *rng.pick(&[ColClass::IntU8, ColClass::IntU16, ColClass::IntU32, ColClass::IntU32Offset, ColClass::IntFull, ColClass::IntNeg]),
        "C04" => *rng.pick(&[ColClass::IntU8, ColClass::IntU16, ColClass::IntU32, ColClass::IntConst, ColClass::IntMonotone]),
        _ => *rng.pick(&[ColClass::IntU8, ColClass::IntU16Offset, ColClass::IntU32, ColClass::IntNeg, ColClass::IntMonotone, ColClass::IntConst]),
    };
    let np = if spicy() { *rng.pick(&[NullPattern::None, NullPattern::None, NullPattern::Some]) } else { NullPattern::None };
    cols.push(("i2".into(), gen_cells(rng, i2class, np, nrows, 0)));
    // g: NULL-free low-cardinality int (grouping key)
    cols.push(("g".into(), (0..nrows).map(|_| Cell::I(rng.range(0, 3))).collect()));
    let np = *rng.pick(&[NullPattern::None, NullPattern::Some, NullPattern::Most]);
    cols.push(("f1".into(), gen_cells(rng, ColClass::FloatDyadic, np, nrows, 0)));
    let np = *rng.pick(&[NullPattern::None, NullPattern::Some, NullPattern::Alternating]);
    cols.push(("s1".into(), gen_cells(rng, ColClass::StrLowCard, np, nrows, 0)));
    let s2class = if spicy() { ColClass::StrHighCard } else { ColClass::StrUnicode };
    let np = if spicy() { *rng.pick(&[NullPattern::None, NullPattern::Some]) } else { NullPattern::None };
    cols.push(("s2".into(), gen_cells(rng, s2class, np, nrows, 0)));
    if matches!(prop, "C02" | "C04") {
        // x: integer-typed in the first part of the table, float-typed in the rest, with NULLs: the
        // partitions of one column differ in type, partial aggregates are merged across the types
        let seg = 1 + rng.below(nrows as u64) as usize;
        let np = *rng.pick(&[NullPattern::Some, NullPattern::Most, NullPattern::Alternating]);
        let mut x = gen_cells(rng, ColClass::IntU8, np, seg.min(nrows), 0);
        x.extend(gen_cells(rng, ColClass::FloatDyadic, np, nrows - seg.min(nrows), seg as u64));
        cols.push(("x".into(), x));
    }
    if !spicy() {
        // Mild plans: no request may carry a column that is entirely NULL (a partition in which a
        // column has type Null trips open findings of the query engine): every third row holds a
        // value and requests are cut at multiples of three rows.
        for (name, cells) in cols.iter_mut() {
            if name == "id" {
                continue;
            }
            let donor = cells.iter().find(|c| !c.is_null()).cloned().unwrap_or(match name.as_str() {
                "f1" | "x" => Cell::f(0.5),
                "s1" | "s2" => Cell::S("k0".into()),
                _ => Cell::I(7),
            });
            for i in (0..cells.len()).step_by(3) {
                if cells[i].is_null() {
                    cells[i] = donor.clone();
                }
            }
        }
    }
    if prop == "C06" && rng.below(2) == 0 {
        // SUM overflow arranged so that it depends on where the partials are merged: MAX-ish, 1, -1 ...
        let big = (i64::MAX - 1) / 2;
        let pattern = [big, big, 2, -2, -big, 5, big, -3];
        let k = rng.below(8) as usize;
        let v: Vec<Cell> = (0..nrows).map(|i| Cell::I(pattern[(i + k) % pattern.len()])).collect();
        cols[2] = ("i2".into(), v);
    }
    cols
}

/// one physical realisation: the logical rows cut into requests, flushes in between, maybe cold
fn realise(rng: &mut Rng, logical: &[(String, Vec<Cell>)], opts: &OptsSpec, first_id: &mut u32) -> Vec<Op> {
    let nrows = logical[0].1.len();
    let mut ops = Vec::new();
    let mut cuts: Vec<usize> = Vec::new();
    let k = match rng.below(4) {
        0 => 1,
        1 => nrows.min(2 + rng.below(3) as usize),
        _ => 1 + rng.below(nrows.min(7) as u64) as usize,
    };
    for _ in 1..k {
        let c = 1 + rng.below(nrows as u64 - 1).min(nrows as u64 - 2) as usize;
        cuts.push(if spicy() { c } else { (c / 3) * 3 });
    }
    cuts.retain(|c| *c > 0);
    cuts.push(nrows);
    cuts.sort();
    cuts.dedup();
    let mut start = 0;
    for end in cuts {
        if end <= start {
            continue;
        }
        let mut cols = Vec::new();
        for (name, cells) in logical {
            let slice: Vec<Cell> = cells[start..end].to_vec();
            // a column that is entirely NULL in this request is sometimes left out
            if slice.iter().all(|c| c.is_null()) && rng.below(2) == 0 && spicy() {
                continue;
            }
            cols.push(ColBatch { name: name.clone(), cells: slice, repr: pick_repr(rng) });
        }
        let req = Request { id: *first_id, path: pick_path(rng), tables: vec![TableBatch { table: QT.into(), rows: end - start, cols }] };
        *first_id += 1;
        ops.push(Op::Ingest(req));
        if rng.below(2) == 0 {
            ops.push(Op::Flush);
        }
        start = end;
    }
    if opts.on_disk {
        match rng.below(5) {
            0 => {
                ops.push(Op::Flush);
                ops.push(Op::Restart);
            }
            1 => {
                ops.push(Op::Flush);
                ops.push(Op::Evict);
            }
            2 => ops.push(Op::Restart),
            _ => {}
        }
    }
    ops
}

fn gen_query_plan(prop: &str, seed: u64, rng: &mut Rng) -> Plan {
    use crate::sql::QKind;
    let mut p = base_plan(prop, "history", seed, rng);
    p.check_each = false;
    // a panic inside query execution is contained by the worker loop and fails that query: the
    // query's own violation class (which names the query shape) reports it
    p.knobs.insert("failing_requests_expected".into(), 1);
    p.opts.on_disk = rng.below(4) != 0;
    let nrows = match rng.below(6) {
        0 => *rng.pick(&[1usize, 2, 8, 9, 16, 17]),
        1..=3 => 3 + rng.below(20) as usize,
        _ => 20 + rng.below(60) as usize,
    };
    let logical = gen_logical(rng, prop, nrows);
    // the model table, to draw constants relative to the data
    let mut m = Model::default();
    m.apply(&Request { id: 0, path: IngestPath::Native, tables: vec![TableBatch { table: QT.into(), rows: nrows, cols: logical.iter().map(|(n, c)| ColBatch { name: n.clone(), cells: c.clone(), repr: Repr::Typed }).collect() }] });
    let t = m.tables[QT].clone();
    let cols = qcols();
    let nq = match prop {
        "C02" => 6 + rng.below(6),
        "C03" => 12 + rng.below(18),
        "C04" => 6 + rng.below(8),
        "C05" => 8 + rng.below(10),
        _ => 10 + rng.below(12),
    };
    let mut queries = Vec::new();
    for _ in 0..nq {
        let kind = match prop {
            "C03" => QKind::Filter,
            "C04" => QKind::Agg,
            "C05" => QKind::Order,
            "C06" => *rng.pick(&[QKind::Arith, QKind::Arith, QKind::SumOverflow, QKind::Agg]),
            _ => *rng.pick(&[QKind::Filter, QKind::Order, QKind::Agg, QKind::Arith, QKind::Agg]),
        };
        queries.push(Op::Query(crate::sql::gen_query(rng, QT, &t, &cols, kind)));
    }
    let mut id = 1;
    p.ops = realise(rng, &logical, &p.opts, &mut id);
    p.ops.push(Op::CheckAll);
    p.ops.extend(queries.iter().cloned());
    if prop == "C02" {
        // the second realisation: other options, other cuts, other maintenance, same rows and queries
        let mut alt = base_plan(prop, "history", seed ^ 0xA17, rng);
        alt.check_each = false;
        alt.knobs.insert("failing_requests_expected".into(), 1);
        alt.opts.on_disk = rng.below(3) != 0;
        let mut id2 = 1;
        alt.ops = realise(rng, &logical, &alt.opts, &mut id2);
        alt.ops.push(Op::CheckAll);
        alt.ops.extend(queries.iter().cloned());
        p.alt = Some(Box::new(alt));
    }
    p
}
