//! The seeded scheduler: decides which simulated thread runs at every scheduling point.
//!
//! Three strategies, all driven by one PRNG:
//!   Random  - uniform among runnable threads at every point
//!   Sticky  - keep running the current thread with probability p, else uniform (long runs per thread)
//!   Pct     - PCT-style: random distinct priorities, highest runs; `depth-1` priority change points
//!             at seeded step numbers; an explicit yield drops the yielder to the lowest priority
//! On top of the strategy the scheduler owns the *timer* thread's moment: the simulated clock only
//! advances when the timer thread runs, which happens when nothing else is runnable (discrete-event
//! simulation) or, with a seeded per-decision probability, while other threads could run (a timer
//! firing early relative to other threads' work = slow / stalled threads).
//! It also implements the hang watchdog: if the clock had to be advanced `idle_limit` times in a row
//! with no other thread runnable and without the harness reporting progress, the execution is stopped.

use locustdb_simrt::core::{Rng, TIMER_TASK};
use shuttle_engine::scheduler::{Schedule, Scheduler, Task, TaskId};
use std::collections::HashMap;
use std::sync::atomic::{AtomicBool, AtomicU64, Ordering};

pub static PROGRESS_EPOCH: AtomicU64 = AtomicU64::new(0);
pub static HANG: AtomicBool = AtomicBool::new(false);
/// set by the main simulated thread when it is done: the next scheduling decision ends the execution
pub static STOP_REQUEST: AtomicBool = AtomicBool::new(false);
pub static DEADLOCK: AtomicBool = AtomicBool::new(false);
pub static SCHED_HASH: AtomicU64 = AtomicU64::new(0);
pub static CTX_SWITCHES: AtomicU64 = AtomicU64::new(0);
pub static DECISIONS: AtomicU64 = AtomicU64::new(0);
pub static IDLE_FIRINGS: AtomicU64 = AtomicU64::new(0);
pub static EAGER_FIRINGS: AtomicU64 = AtomicU64::new(0);

pub fn progress() {
    PROGRESS_EPOCH.fetch_add(1, Ordering::SeqCst);
}

#[derive(Clone, Debug, serde::Serialize, serde::Deserialize, PartialEq)]
pub struct SchedSpec {
    /// 0 = Random, 1 = Sticky, 2 = Pct
    pub kind: u8,
    pub seed: u64,
    /// Pct: number of priority change points + 1
    pub depth: u32,
    /// Pct: change points are drawn from 1..=est_steps
    pub est_steps: u32,
    /// Sticky: per-mille probability of staying on the current thread
    pub sticky_permille: u32,
    /// per-mille probability (per decision) that the timer thread may run although others are runnable
    pub timer_eager_permille: u32,
    /// watchdog: consecutive idle clock advances without progress before the run is declared hung
    pub idle_limit: u32,
}

impl SchedSpec {
    pub fn simple(seed: u64) -> SchedSpec {
        SchedSpec { kind: 0, seed, depth: 3, est_steps: 5000, sticky_permille: 900, timer_eager_permille: 0, idle_limit: 600 }
    }
    pub fn generate(rng: &mut Rng) -> SchedSpec {
        let kind = match rng.below(10) {
            0..=3 => 0,
            4..=6 => 1,
            _ => 2,
        };
        SchedSpec {
            kind,
            seed: rng.next_u64(),
            depth: 1 + rng.below(5) as u32,
            est_steps: *rng.pick(&[500u32, 2000, 8000, 30000]),
            sticky_permille: *rng.pick(&[500u32, 800, 950, 990]),
            timer_eager_permille: *rng.pick(&[0u32, 0, 0, 1, 5, 20]),
            idle_limit: 600,
        }
    }
}

pub struct LsimScheduler {
    spec: SchedSpec,
    rng: Rng,
    started: bool,
    prio: HashMap<usize, u64>,
    next_low: u64,
    change_points: Vec<u64>,
    steps: u64,
    idle_run: u32,
    seen_epoch: u64,
    hash: u64,
    last: usize,
    age: HashMap<usize, u32>,
    low_mark: u64,
}

const STARVATION_BOUND: u32 = 4000;

impl LsimScheduler {
    pub fn new(spec: SchedSpec) -> LsimScheduler {
        let mut rng = Rng::new(spec.seed);
        let mut change_points = Vec::new();
        if spec.kind == 2 {
            for _ in 1..spec.depth {
                change_points.push(1 + rng.below(spec.est_steps.max(2) as u64));
            }
        }
        HANG.store(false, Ordering::SeqCst);
        STOP_REQUEST.store(false, Ordering::SeqCst);
        DEADLOCK.store(false, Ordering::SeqCst);
        SCHED_HASH.store(0, Ordering::SeqCst);
        CTX_SWITCHES.store(0, Ordering::SeqCst);
        DECISIONS.store(0, Ordering::SeqCst);
        IDLE_FIRINGS.store(0, Ordering::SeqCst);
        EAGER_FIRINGS.store(0, Ordering::SeqCst);
        LsimScheduler {
            spec,
            rng,
            started: false,
            prio: HashMap::new(),
            next_low: 1 << 40,
            change_points,
            steps: 0,
            idle_run: 0,
            seen_epoch: PROGRESS_EPOCH.load(Ordering::SeqCst),
            hash: 0xcbf29ce484222325,
            last: usize::MAX,
            age: HashMap::new(),
            low_mark: 0,
        }
    }
}

impl Scheduler for LsimScheduler {
    fn new_execution(&mut self) -> Option<Schedule> {
        if self.started {
            None
        } else {
            self.started = true;
            Some(Schedule::new(self.spec.seed))
        }
    }

    fn next_task(&mut self, runnable: &[&Task], current: Option<TaskId>, is_yielding: bool) -> Option<TaskId> {
        DECISIONS.fetch_add(1, Ordering::Relaxed);
        if STOP_REQUEST.load(Ordering::SeqCst) {
            // from here on only destructors run (forced unwinding of unfinished coroutines)
            locustdb_simrt::core::set_exec_over(true);
            return None;
        }
        let epoch = PROGRESS_EPOCH.load(Ordering::SeqCst);
        if epoch != self.seen_epoch {
            self.seen_epoch = epoch;
            self.idle_run = 0;
        }
        let timer = TIMER_TASK.load(Ordering::SeqCst);
        let mut ids: Vec<usize> = runnable.iter().map(|t| usize::from(t.id())).collect();
        let has_timer = ids.contains(&timer);
        if has_timer {
            if ids.len() == 1 {
                // nothing else can run: advance the clock
                if locustdb_simrt::time::pending_timers() == 0 {
                    // ... but there is nothing to wait for either: every thread is blocked for good
                    HANG.store(true, Ordering::SeqCst);
                    DEADLOCK.store(true, Ordering::SeqCst);
                    locustdb_simrt::core::set_exec_over(true);
                    return None;
                }
                self.idle_run += 1;
                IDLE_FIRINGS.fetch_add(1, Ordering::Relaxed);
                if self.idle_run > self.spec.idle_limit {
                    HANG.store(true, Ordering::SeqCst);
                    locustdb_simrt::core::set_exec_over(true);
                    return None;
                }
            } else if self.spec.timer_eager_permille > 0 && self.rng.below(1000) < self.spec.timer_eager_permille as u64 {
                EAGER_FIRINGS.fetch_add(1, Ordering::Relaxed);
                ids.retain(|t| *t == timer);
            } else {
                ids.retain(|t| *t != timer);
            }
        }
        let cur = current.map(usize::from).unwrap_or(usize::MAX);
        // a harness thread polls for an instance to shut down: it must not keep the clock from
        // advancing, and if nothing but the poller is left the instance is inert
        let poller = locustdb_simrt::core::QUIESCE_POLLER.load(Ordering::SeqCst);
        if poller != usize::MAX && has_timer && ids.len() == 1 && ids[0] == poller {
            if locustdb_simrt::time::pending_timers() > 0 {
                self.idle_run += 1;
                IDLE_FIRINGS.fetch_add(1, Ordering::Relaxed);
                if self.idle_run > self.spec.idle_limit {
                    locustdb_simrt::core::QUIESCE_INERT.store(true, Ordering::SeqCst);
                } else {
                    ids[0] = timer;
                }
            } else {
                locustdb_simrt::core::QUIESCE_INERT.store(true, Ordering::SeqCst);
            }
        }
        let choice = if ids.len() == 1 {
            ids[0]
        } else {
            match self.spec.kind {
                0 => ids[self.rng.below(ids.len() as u64) as usize],
                1 => {
                    if !is_yielding && ids.contains(&cur) && self.rng.below(1000) < self.spec.sticky_permille as u64 {
                        cur
                    } else {
                        ids[self.rng.below(ids.len() as u64) as usize]
                    }
                }
                _ => {
                    self.steps += 1;
                    for id in &ids {
                        if !self.prio.contains_key(id) {
                            let p = self.rng.below(1 << 32);
                            self.prio.insert(*id, p);
                        }
                    }
                    if (is_yielding || self.change_points.contains(&self.steps)) && cur != usize::MAX {
                        self.next_low += 1;
                        self.prio.insert(cur, self.next_low);
                    }
                    *ids.iter().min_by_key(|id| (self.prio[id], **id)).unwrap()
                }
            }
        };
        // Fairness bound (all strategies): a thread that has been runnable but passed over for a
        // long time runs next. Strict priorities would otherwise let a thread that busy-waits for
        // another one (DiskReadScheduler::get_or_load polls `load_scheduled` in a loop) starve it
        // forever, which no real scheduler does.
        let mut choice = choice;
        if ids.len() > 1 {
            let mut oldest: Option<(u32, usize)> = None;
            for id in &ids {
                if *id == timer {
                    continue;
                }
                let a = self.age.entry(*id).or_insert(0);
                if *id == choice {
                    *a = 0;
                } else {
                    *a += 1;
                    if *a > STARVATION_BOUND && oldest.map(|o| *a > o.0).unwrap_or(true) {
                        oldest = Some((*a, *id));
                    }
                }
            }
            if let Some((_, id)) = oldest {
                choice = id;
                self.age.insert(id, 0);
                if self.spec.kind == 2 {
                    // the starving thread overtakes everybody (a PCT priority change)
                    self.low_mark = self.low_mark.saturating_sub(1);
                    self.prio.insert(id, 0);
                }
            }
        }
        if std::env::var_os("LSIM_TRACE_SCHED").is_some() {
            eprintln!("sched: runnable={:?} cur={} yielding={} -> {}", runnable.iter().map(|t| usize::from(t.id())).collect::<Vec<_>>(), cur as isize, is_yielding, choice);
        }
        if choice != self.last {
            CTX_SWITCHES.fetch_add(1, Ordering::Relaxed);
            self.hash ^= choice as u64 + 1;
            self.hash = self.hash.wrapping_mul(0x100000001b3);
            self.hash ^= self.steps_since_switch();
            self.hash = self.hash.wrapping_mul(0x100000001b3);
            SCHED_HASH.store(self.hash, Ordering::Relaxed);
            self.last = choice;
        }
        Some(TaskId::from(choice))
    }

    fn next_u64(&mut self) -> u64 {
        self.rng.next_u64()
    }
}

impl LsimScheduler {
    fn steps_since_switch(&self) -> u64 {
        DECISIONS.load(Ordering::Relaxed)
    }
}
