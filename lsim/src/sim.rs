//! One simulated execution: fresh OS thread, seeded hash keys, seeded scheduler, simulated clock
//! and disk; returns everything the oracles need.

use crate::sched::{self, LsimScheduler, SchedSpec};
use locustdb_simrt as rt;
use shuttle_engine::{Config, FailurePersistence, MaxSteps, Runner};
use std::sync::atomic::{AtomicBool, AtomicU64, Ordering};
use std::sync::{Arc, Mutex};

// ---- OS randomness interposer: std's HashMap keys (and anything else asking the OS for entropy)
// become a pure function of (run seed, call index). std looks `getrandom` up as a weak symbol.
static ENTROPY_SEED: AtomicU64 = AtomicU64::new(0x1234_5678);
static ENTROPY_CALLS: AtomicU64 = AtomicU64::new(0);

#[no_mangle]
pub unsafe extern "C" fn getrandom(buf: *mut u8, len: usize, _flags: u32) -> isize {
    let call = ENTROPY_CALLS.fetch_add(1, Ordering::SeqCst);
    if std::env::var_os("LSIM_TRACE_ENTROPY").is_some() {
        eprintln!("[lsim] getrandom call #{call} len {len}\n{}", std::backtrace::Backtrace::force_capture());
    }
    let mut x: u64 = ENTROPY_SEED.load(Ordering::SeqCst) ^ call.wrapping_mul(0xD1B54A32D192ED03);
    for i in 0..len {
        x = x.wrapping_add(0x9E3779B97F4A7C15);
        let mut z = x;
        z = (z ^ (z >> 30)).wrapping_mul(0xBF58476D1CE4E5B9);
        z = (z ^ (z >> 27)).wrapping_mul(0x94D049BB133111EB);
        z ^= z >> 31;
        *buf.add(i) = (z >> 24) as u8;
    }
    len as isize
}

pub fn entropy_calls() -> u64 {
    ENTROPY_CALLS.load(Ordering::SeqCst)
}

#[derive(Debug, Clone, PartialEq)]
pub enum EndState {
    /// main thread returned
    Completed,
    /// watchdog: no progress while only the clock could advance
    Hang(String),
    /// engine-level failure: deadlock (nothing runnable, no timer), step bound, harness panic
    Engine(String),
}

pub struct SimReport {
    pub end: EndState,
    pub steps: u64,
    pub sched_points: u64,
    pub decisions: u64,
    pub ctx_switches: u64,
    pub sched_hash: u64,
    pub timers_fired: u64,
    pub idle_firings: u64,
    pub eager_firings: u64,
    pub sim_ns: u64,
    pub event_hash: u64,
    pub ctx: rt::core::Ctx,
}

pub const DEFAULT_MAX_STEPS: usize = 3_000_000;

/// Run `body` as the main simulated thread. `keep_fs`: do not reset the simulated disk (used when a
/// scenario spans several executions, e.g. crash images recovered one execution each).
pub fn run_sim<F>(seed: u64, spec: &SchedSpec, max_steps: usize, keep_fs: bool, body: F) -> SimReport
where
    F: FnOnce() + Send + 'static,
{
    ENTROPY_SEED.store(seed ^ 0xA5A5_5A5A_0F0F_F0F0, Ordering::SeqCst);
    ENTROPY_CALLS.store(0, Ordering::SeqCst);
    let spec = spec.clone();
    let saved_fs = if keep_fs { Some(rt::fs::with_state(std::mem::take)) } else { None };
    rt::core::install_ctx(seed);
    if let Some(mut fs) = saved_fs {
        // keep the tree; per-run logs start empty, per-run rng is re-seeded
        fs.effects.clear();
        fs.images.clear();
        fs.reads.clear();
        fs.monitor_violations.clear();
        fs.record_root = None;
        fs.rng = Some(rt::core::Rng::new(seed ^ 0xF5F5_0001));
        rt::fs::with_state(|st| *st = fs);
    }
    let handle = std::thread::Builder::new()
        .name("lsim-run".into())
        .stack_size(1 << 20)
        .spawn(move || {
            let body = Mutex::new(Some(body));
            let mut cfg = Config::new();
            cfg.stack_size = rt::thread::STACK_SIZE;
            cfg.max_steps = MaxSteps::FailAfter(max_steps);
            cfg.failure_persistence = FailurePersistence::None;
            cfg.silence_warnings = true;
            let scheduler = LsimScheduler::new(spec);
            let runner = Runner::new(scheduler, cfg);
            rt::core::set_exec_over(false);
            let steps = Arc::new(AtomicU64::new(0));
            let steps2 = steps.clone();
            let completed = Arc::new(AtomicBool::new(false));
            let completed2 = completed.clone();
            let r = std::panic::catch_unwind(std::panic::AssertUnwindSafe(move || {
                runner.run(move || {
                    rt::core::install_panic_hook();
                    let stop = Arc::new(AtomicBool::new(false));
                    let stop2 = stop.clone();
                    rt::thread::spawn_harness("timer", move || rt::time::timer_loop(&stop2));
                    let b = body.lock().unwrap().take().expect("body runs once");
                    b();
                    stop.store(true, Ordering::SeqCst);
                    steps2.store(rt::core::schedule_len() as u64, Ordering::SeqCst);
                    completed2.store(true, Ordering::SeqCst);
                    // end the execution here: the scheduler answers the next decision with "stop"
                    sched::STOP_REQUEST.store(true, Ordering::SeqCst);
                    rt::core::yield_now();
                });
            }));
            rt::core::set_exec_over(true);
            let end = match r {
                Ok(()) => {
                    if completed.load(Ordering::SeqCst) {
                        EndState::Completed
                    } else if sched::HANG.load(Ordering::SeqCst) {
                        if sched::DEADLOCK.load(Ordering::SeqCst) {
                            EndState::Hang("deadlock: every thread is blocked and no timer is pending".into())
                        } else {
                            EndState::Hang("watchdog: only the clock could advance and no operation completed".into())
                        }
                    } else {
                        EndState::Engine("execution stopped before the main thread returned".into())
                    }
                }
                Err(p) => {
                    let msg = if let Some(s) = p.downcast_ref::<&str>() {
                        s.to_string()
                    } else if let Some(s) = p.downcast_ref::<String>() {
                        s.clone()
                    } else {
                        "<panic>".to_string()
                    };
                    if msg.starts_with("deadlock!") {
                        EndState::Hang(rt::core::truncate(&msg, 300))
                    } else if msg.starts_with("exceeded max_steps") {
                        EndState::Hang("step bound exceeded".into())
                    } else {
                        EndState::Engine(rt::core::truncate(&msg, 400))
                    }
                }
            };
            (end, steps.load(Ordering::SeqCst))
        })
        .expect("spawn run thread");
    let (end, steps) = handle.join().unwrap_or_else(|_| (EndState::Engine("run thread died".into()), 0));
    let ctx = rt::core::take_ctx().expect("ctx");
    SimReport {
        end,
        steps,
        sched_points: rt::core::SCHED_POINTS.load(Ordering::SeqCst),
        decisions: sched::DECISIONS.load(Ordering::SeqCst),
        ctx_switches: sched::CTX_SWITCHES.load(Ordering::SeqCst),
        sched_hash: sched::SCHED_HASH.load(Ordering::SeqCst),
        timers_fired: rt::time::FIRED.load(Ordering::SeqCst),
        idle_firings: sched::IDLE_FIRINGS.load(Ordering::SeqCst),
        eager_firings: sched::EAGER_FIRINGS.load(Ordering::SeqCst),
        sim_ns: rt::time::now_ns(),
        event_hash: rt::core::event_log_hash(&ctx.events),
        ctx,
    }
}
