//! SQL fragment: query specs (AST), rendering to SQL text, reference evaluation.  (extended below)

use serde::{Deserialize, Serialize};

#[derive(Clone, Debug, PartialEq, Serialize, Deserialize)]
pub struct QSpec {
    pub table: String,
    pub sql: String,
}
