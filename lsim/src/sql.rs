//! SQL fragment: query specs (AST), rendering to SQL text, reference evaluation.  (extended below)

use serde::{Deserialize, Serialize};

#[derive(Clone, Debug, PartialEq, Serialize, Deserialize)]
pub struct QSpec {
    pub table: String,
    pub sql: String,
}

pub fn exec_query(env: &mut crate::env::Env, q: &QSpec, ctx: &str) {
    // (replaced by the evaluator-backed implementation)
    let r = env.query(&q.sql);
    crate::exec_more::check_wellformed(env, &q.sql, &r, ctx);
}
