//! SQL fragment: query specs (AST), rendering to SQL text, generation, reference evaluation.
//!
//! The evaluator is a row-at-a-time interpreter of what the properties state (C03-C06). Where
//! the engine's behaviour is fixed by the pinned test suite the model adopts it (integer `/`
//! truncates, AVG = SUM/COUNT in the operand type, an aggregate over no non-NULL input is NULL
//! — COUNT included —, no LIMIT means all rows, an aggregate query over no rows returns no row).

use crate::env::*;
use crate::model::*;
use locustdb_simrt::core::Rng;
use serde::{Deserialize, Serialize};
use std::cmp::Ordering;
use std::collections::BTreeMap;

#[derive(Clone, Debug, PartialEq, Serialize, Deserialize)]
pub enum Expr {
    Col(String),
    I(i64),
    F(u64),
    S(String),
    Add(Box<Expr>, Box<Expr>),
    Sub(Box<Expr>, Box<Expr>),
    Mul(Box<Expr>, Box<Expr>),
    Div(Box<Expr>, Box<Expr>),
    Mod(Box<Expr>, Box<Expr>),
}

#[derive(Clone, Copy, Debug, PartialEq, Eq, Serialize, Deserialize)]
pub enum CmpOp {
    Eq,
    Ne,
    Lt,
    Le,
    Gt,
    Ge,
}

#[derive(Clone, Debug, PartialEq, Serialize, Deserialize)]
pub enum Pred {
    Cmp(CmpOp, Expr, Expr),
    IsNull(String),
    IsNotNull(String),
    And(Box<Pred>, Box<Pred>),
    Or(Box<Pred>, Box<Pred>),
    Not(Box<Pred>),
}

#[derive(Clone, Copy, Debug, PartialEq, Eq, Serialize, Deserialize)]
pub enum AggFn {
    Count,
    Sum,
    Min,
    Max,
}

#[derive(Clone, Debug, PartialEq, Serialize, Deserialize)]
pub enum SelItem {
    E(Expr),
    Agg(AggFn, Expr),
}

#[derive(Clone, Debug, PartialEq, Serialize, Deserialize)]
pub struct QSpec {
    pub table: String,
    pub select: Vec<SelItem>,
    pub filter: Option<Pred>,
    /// (key, descending)
    pub order: Vec<(Expr, bool)>,
    pub limit: Option<u64>,
    pub offset: Option<u64>,
    pub sql: String,
}

// ---------------------------------------------------------------------------------------------
// rendering
// ---------------------------------------------------------------------------------------------

fn lit_f(bits: u64) -> String {
    let x = f64::from_bits(bits);
    // a form sqlparser reads back as the same f64 and the engine parses as a float
    let s = format!("{:?}", x);
    if s.contains('.') || s.contains('e') {
        s
    } else {
        format!("{s}.0")
    }
}

pub fn render_expr(e: &Expr) -> String {
    match e {
        Expr::Col(c) => quote_ident(c),
        Expr::I(i) => {
            if *i < 0 {
                format!("({i})")
            } else {
                format!("{i}")
            }
        }
        Expr::F(b) => {
            let s = lit_f(*b);
            if s.starts_with('-') {
                format!("({s})")
            } else {
                s
            }
        }
        Expr::S(s) => format!("'{}'", s.replace('\'', "''")),
        Expr::Add(a, b) => format!("({} + {})", render_expr(a), render_expr(b)),
        Expr::Sub(a, b) => format!("({} - {})", render_expr(a), render_expr(b)),
        Expr::Mul(a, b) => format!("({} * {})", render_expr(a), render_expr(b)),
        Expr::Div(a, b) => format!("({} / {})", render_expr(a), render_expr(b)),
        Expr::Mod(a, b) => format!("({} % {})", render_expr(a), render_expr(b)),
    }
}

fn render_pred(p: &Pred) -> String {
    match p {
        Pred::Cmp(op, a, b) => {
            let o = match op {
                CmpOp::Eq => "=",
                CmpOp::Ne => "<>",
                CmpOp::Lt => "<",
                CmpOp::Le => "<=",
                CmpOp::Gt => ">",
                CmpOp::Ge => ">=",
            };
            format!("{} {} {}", render_expr(a), o, render_expr(b))
        }
        Pred::IsNull(c) => format!("{} IS NULL", quote_ident(c)),
        Pred::IsNotNull(c) => format!("{} IS NOT NULL", quote_ident(c)),
        Pred::And(a, b) => format!("({} AND {})", render_pred(a), render_pred(b)),
        Pred::Or(a, b) => format!("({} OR {})", render_pred(a), render_pred(b)),
        Pred::Not(a) => format!("NOT ({})", render_pred(a)),
    }
}

pub fn render(q: &mut QSpec) {
    let items: Vec<String> = q
        .select
        .iter()
        .map(|s| match s {
            SelItem::E(e) => render_expr(e),
            SelItem::Agg(f, e) => format!("{}({})", match f { AggFn::Count => "COUNT", AggFn::Sum => "SUM", AggFn::Min => "MIN", AggFn::Max => "MAX" }, render_expr(e)),
        })
        .collect();
    let mut s = format!("SELECT {} FROM {}", items.join(", "), quote_ident(&q.table));
    if let Some(f) = &q.filter {
        s += &format!(" WHERE {}", render_pred(f));
    }
    if !q.order.is_empty() {
        let keys: Vec<String> = q.order.iter().map(|(e, d)| format!("{}{}", render_expr(e), if *d { " DESC" } else { " ASC" })).collect();
        s += &format!(" ORDER BY {}", keys.join(", "));
    }
    if let Some(l) = q.limit {
        s += &format!(" LIMIT {l}");
    }
    if let Some(o) = q.offset {
        s += &format!(" OFFSET {o}");
    }
    q.sql = s;
}

// ---------------------------------------------------------------------------------------------
// evaluation
// ---------------------------------------------------------------------------------------------

#[derive(Debug, Clone, PartialEq)]
pub enum EvalErr {
    /// integer overflow or division by zero: the whole query must fail
    Overflow,
    /// outside the fragment whose semantics the properties state (not generated on purpose)
    Unsupported(&'static str),
}

fn num(c: &Cell) -> Option<f64> {
    match c {
        Cell::I(i) => Some(*i as f64),
        Cell::F(b) => Some(f64::from_bits(*b)),
        _ => None,
    }
}

pub fn eval_expr(e: &Expr, t: &MTable, row: usize) -> Result<Cell, EvalErr> {
    let bin = |a: &Expr, b: &Expr, op: u8| -> Result<Cell, EvalErr> {
        let x = eval_expr(a, t, row)?;
        let y = eval_expr(b, t, row)?;
        match (&x, &y) {
            (Cell::N, _) | (_, Cell::N) => Ok(Cell::N),
            (Cell::I(p), Cell::I(q)) => {
                let (p, q) = (*p as i128, *q as i128);
                let r = match op {
                    0 => p + q,
                    1 => p - q,
                    2 => p * q,
                    3 => {
                        if q == 0 {
                            return Err(EvalErr::Overflow);
                        }
                        p / q
                    }
                    _ => {
                        if q == 0 {
                            return Err(EvalErr::Overflow);
                        }
                        if q == -1 && p == i64::MIN as i128 {
                            // (i64::MIN % -1 is 0 mathematically but traps in two's complement hardware)
                            return Err(EvalErr::Unsupported("i64::MIN % -1"));
                        }
                        p % q
                    }
                };
                // i64::MAX is the engine's NULL marker and not part of the value domain
                if r == i64::MAX as i128 {
                    Err(EvalErr::Unsupported("result is the reserved NULL marker"))
                } else if r > i64::MAX as i128 || r < i64::MIN as i128 {
                    Err(EvalErr::Overflow)
                } else {
                    Ok(Cell::I(r as i64))
                }
            }
            (Cell::S(_), _) | (_, Cell::S(_)) => Err(EvalErr::Unsupported("arithmetic on strings")),
            _ => {
                let (p, q) = (num(&x).unwrap(), num(&y).unwrap());
                let r = match op {
                    0 => p + q,
                    1 => p - q,
                    2 => p * q,
                    3 => p / q,
                    _ => return Err(EvalErr::Unsupported("float modulo")),
                };
                Ok(Cell::f(r))
            }
        }
    };
    match e {
        Expr::Col(c) => Ok(match t.col_index(c) {
            Some(i) => t.cell(row, i).clone(),
            None => Cell::N,
        }),
        Expr::I(i) => Ok(Cell::I(*i)),
        Expr::F(b) => Ok(Cell::F(*b)),
        Expr::S(s) => Ok(Cell::S(s.clone())),
        Expr::Add(a, b) => bin(a, b, 0),
        Expr::Sub(a, b) => bin(a, b, 1),
        Expr::Mul(a, b) => bin(a, b, 2),
        Expr::Div(a, b) => bin(a, b, 3),
        Expr::Mod(a, b) => bin(a, b, 4),
    }
}

/// total order used for ORDER BY and MIN/MAX on values of one type class (NULL handled by callers)
pub fn cmp_cells(a: &Cell, b: &Cell) -> Option<Ordering> {
    match (a, b) {
        (Cell::I(x), Cell::I(y)) => Some(x.cmp(y)),
        (Cell::S(x), Cell::S(y)) => Some(x.as_bytes().cmp(y.as_bytes())),
        (Cell::N, _) | (_, Cell::N) => None,
        (Cell::S(_), _) | (_, Cell::S(_)) => None,
        _ => num(a).unwrap().partial_cmp(&num(b).unwrap()),
    }
}

/// three-valued: Some(true) / Some(false) / None (unknown)
pub fn eval_pred(p: &Pred, t: &MTable, row: usize) -> Result<Option<bool>, EvalErr> {
    Ok(match p {
        Pred::Cmp(op, a, b) => {
            let x = eval_expr(a, t, row)?;
            let y = eval_expr(b, t, row)?;
            if x.is_null() || y.is_null() {
                None
            } else {
                let o = cmp_cells(&x, &y).ok_or(EvalErr::Unsupported("comparison across types"))?;
                Some(match op {
                    CmpOp::Eq => o == Ordering::Equal,
                    CmpOp::Ne => o != Ordering::Equal,
                    CmpOp::Lt => o == Ordering::Less,
                    CmpOp::Le => o != Ordering::Greater,
                    CmpOp::Gt => o == Ordering::Greater,
                    CmpOp::Ge => o != Ordering::Less,
                })
            }
        }
        Pred::IsNull(c) => Some(eval_expr(&Expr::Col(c.clone()), t, row)?.is_null()),
        Pred::IsNotNull(c) => Some(!eval_expr(&Expr::Col(c.clone()), t, row)?.is_null()),
        Pred::And(a, b) => match (eval_pred(a, t, row)?, eval_pred(b, t, row)?) {
            (Some(false), _) | (_, Some(false)) => Some(false),
            (Some(true), Some(true)) => Some(true),
            _ => None,
        },
        Pred::Or(a, b) => match (eval_pred(a, t, row)?, eval_pred(b, t, row)?) {
            (Some(true), _) | (_, Some(true)) => Some(true),
            (Some(false), Some(false)) => Some(false),
            _ => None,
        },
        Pred::Not(a) => eval_pred(a, t, row)?.map(|b| !b),
    })
}

/// ORDER BY comparison: NULL after every value ascending, first descending
fn cmp_key(a: &Cell, b: &Cell, desc: bool) -> Ordering {
    let o = match (a.is_null(), b.is_null()) {
        (true, true) => Ordering::Equal,
        (true, false) => Ordering::Greater,
        (false, true) => Ordering::Less,
        _ => cmp_cells(a, b).unwrap_or(Ordering::Equal),
    };
    if desc {
        o.reverse()
    } else {
        o
    }
}

pub struct Expected {
    /// rows in the required order (for ordered queries: one admissible order)
    pub rows: Vec<Vec<Cell>>,
    /// per row: the ORDER BY key tuple (ties may be permuted)
    pub keys: Vec<Vec<Cell>>,
    pub ordered_by_keys: bool,
    pub is_aggregate: bool,
    pub float_sum_cols: Vec<usize>,
    /// all filtered rows (before LIMIT/OFFSET), with keys — to validate tie choices
    pub all_rows: Vec<(Vec<Cell>, Vec<Cell>)>,
    /// a SUM whose total fits i64 although partial sums in some order do not
    pub may_overflow: bool,
}

pub fn evaluate(q: &QSpec, t: &MTable) -> Result<Expected, EvalErr> {
    let n = t.rows.len();
    let mut filtered: Vec<usize> = Vec::new();
    for r in 0..n {
        let keep = match &q.filter {
            Some(p) => eval_pred(p, t, r)? == Some(true),
            None => true,
        };
        if keep {
            filtered.push(r);
        }
    }
    let is_agg = q.select.iter().any(|s| matches!(s, SelItem::Agg(..)));
    if !is_agg {
        let mut rows: Vec<(Vec<Cell>, Vec<Cell>)> = Vec::new();
        for r in &filtered {
            let mut row = Vec::new();
            for s in &q.select {
                if let SelItem::E(e) = s {
                    row.push(eval_expr(e, t, *r)?);
                }
            }
            let mut key = Vec::new();
            for (e, _) in &q.order {
                key.push(eval_expr(e, t, *r)?);
            }
            rows.push((row, key));
        }
        if !q.order.is_empty() {
            let order = q.order.clone();
            rows.sort_by(|a, b| {
                for (i, (_, d)) in order.iter().enumerate() {
                    let o = cmp_key(&a.1[i], &b.1[i], *d);
                    if o != Ordering::Equal {
                        return o;
                    }
                }
                Ordering::Equal
            });
        }
        let all_rows = rows.clone();
        let off = q.offset.unwrap_or(0) as usize;
        let lim = q.limit.map(|l| l as usize).unwrap_or(usize::MAX);
        let window: Vec<(Vec<Cell>, Vec<Cell>)> = rows.into_iter().skip(off).take(lim).collect();
        return Ok(Expected { keys: window.iter().map(|r| r.1.clone()).collect(), rows: window.into_iter().map(|r| r.0).collect(), ordered_by_keys: !q.order.is_empty(), is_aggregate: false, float_sum_cols: vec![], all_rows, may_overflow: false });
    }
    // aggregate: group by the plain select items
    #[derive(Clone)]
    struct Acc {
        count: i64,
        pos: i128,
        neg: i128,
        isum: i128,
        fsum: f64,
        any_float: bool,
        min: Option<Cell>,
        max: Option<Cell>,
    }
    let mut groups: BTreeMap<Vec<Cell>, Vec<Acc>> = BTreeMap::new();
    let nagg = q.select.iter().filter(|s| matches!(s, SelItem::Agg(..))).count();
    for r in &filtered {
        let mut key = Vec::new();
        for s in &q.select {
            if let SelItem::E(e) = s {
                key.push(eval_expr(e, t, *r)?);
            }
        }
        let accs = groups.entry(key).or_insert_with(|| vec![Acc { count: 0, pos: 0, neg: 0, isum: 0, fsum: 0.0, any_float: false, min: None, max: None }; nagg]);
        let mut ai = 0;
        for s in &q.select {
            if let SelItem::Agg(_, e) = s {
                let v = eval_expr(e, t, *r)?;
                let a = &mut accs[ai];
                ai += 1;
                match &v {
                    Cell::N => {}
                    Cell::S(_) => return Err(EvalErr::Unsupported("aggregate over strings")),
                    _ => {
                        a.count += 1;
                        match &v {
                            Cell::I(i) => {
                                a.isum += *i as i128;
                                if *i > 0 {
                                    a.pos += *i as i128;
                                } else {
                                    a.neg += *i as i128;
                                }
                                a.fsum += *i as f64;
                            }
                            Cell::F(b) => {
                                a.any_float = true;
                                a.fsum += f64::from_bits(*b);
                            }
                            _ => {}
                        }
                        if a.min.as_ref().map(|m| cmp_cells(&v, m) == Some(Ordering::Less)).unwrap_or(true) {
                            a.min = Some(v.clone());
                        }
                        if a.max.as_ref().map(|m| cmp_cells(&v, m) == Some(Ordering::Greater)).unwrap_or(true) {
                            a.max = Some(v.clone());
                        }
                    }
                }
            }
        }
    }
    let mut rows = Vec::new();
    let mut float_sum_cols = Vec::new();
    let mut may_overflow = false;
    for (key, accs) in groups {
        let mut row = Vec::new();
        let (mut ki, mut ai) = (0, 0);
        for (ci, s) in q.select.iter().enumerate() {
            match s {
                SelItem::E(_) => {
                    row.push(key[ki].clone());
                    ki += 1;
                }
                SelItem::Agg(f, _) => {
                    let a = &accs[ai];
                    ai += 1;
                    let c = if a.count == 0 {
                        Cell::N
                    } else {
                        match f {
                            AggFn::Count => Cell::I(a.count),
                            AggFn::Sum => {
                                if a.any_float {
                                    if !float_sum_cols.contains(&ci) {
                                        float_sum_cols.push(ci);
                                    }
                                    Cell::f(a.fsum)
                                } else if a.isum == i64::MAX as i128 {
                                    return Err(EvalErr::Unsupported("sum is the reserved NULL marker"));
                                } else if a.isum > i64::MAX as i128 || a.isum < i64::MIN as i128 {
                                    return Err(EvalErr::Overflow);
                                } else {
                                    if a.pos > (i64::MAX - 1) as i128 || a.neg < i64::MIN as i128 {
                                        // the total fits but some order of adding the values does
                                        // not: the exact value or an overflow error are both right
                                        may_overflow = true;
                                    }
                                    Cell::I(a.isum as i64)
                                }
                            }
                            AggFn::Min => a.min.clone().unwrap(),
                            AggFn::Max => a.max.clone().unwrap(),
                        }
                    };
                    row.push(c);
                }
            }
        }
        rows.push(row);
    }
    Ok(Expected { keys: vec![], rows, ordered_by_keys: false, is_aggregate: true, float_sum_cols, all_rows: vec![], may_overflow })
}

fn cells_equal(want: &Cell, got: &Cell, float_tol: bool) -> bool {
    if want == got {
        return true;
    }
    match (want, got) {
        (Cell::F(a), Cell::F(b)) => {
            let (x, y) = (f64::from_bits(*a), f64::from_bits(*b));
            if x == y {
                return true; // 0.0 == -0.0 after arithmetic
            }
            float_tol && (x - y).abs() <= 1e-9 * (x.abs() + y.abs() + 1.0)
        }
        // an integer-valued result may surface as float when the column mixes ints and floats
        (Cell::I(a), Cell::F(b)) | (Cell::F(b), Cell::I(a)) => (*a as f64) == f64::from_bits(*b),
        _ => false,
    }
}

fn rows_equal(want: &[Cell], got: &[Cell], float_cols: &[usize]) -> bool {
    want.len() == got.len() && want.iter().zip(got.iter()).enumerate().all(|(i, (w, g))| cells_equal(w, g, float_cols.contains(&i)))
}

/// Compare the engine's answer with the reference. Returns None if they agree.
pub fn compare(q: &QSpec, exp: &Result<Expected, EvalErr>, got: &Result<QOut, QErr>) -> Option<(String, String)> {
    match (exp, got) {
        (Err(EvalErr::Unsupported(_)), _) => None,
        (Err(EvalErr::Overflow), Err(_)) => None,
        (Err(EvalErr::Overflow), Ok(o)) => Some(("arith:overflow_not_reported".into(), format!("exact evaluation overflows i64 (or divides by zero) but the query returned {} row(s), first: {:?}", o.rows.len(), o.rows.first().map(|r| r.iter().map(|c| c.short()).collect::<Vec<_>>())))),
        (Ok(x), Err(e)) if x.may_overflow && e.kind() == "Overflow" => None,
        (Ok(_), Err(e)) => Some((format!("query_failed:{}:{}", e.kind(), stem(&e.msg())), format!("the query failed with {}: {}", e.kind(), e.msg()))),
        (Ok(exp), Ok(o)) => {
            if exp.is_aggregate {
                // multiset of rows
                let mut want = exp.rows.clone();
                let mut have = o.rows.clone();
                want.sort();
                have.sort();
                if want.len() != have.len() {
                    return Some((if have.len() > want.len() { "agg:extra_groups".into() } else { "agg:missing_groups".to_string() }, format!("{} group row(s) returned, {} expected; got {:?}, expected {:?}", have.len(), want.len(), short_rows(&have), short_rows(&want))));
                }
                // match greedily with tolerance on float sums
                let mut used = vec![false; have.len()];
                for w in &want {
                    match (0..have.len()).find(|i| !used[*i] && rows_equal(w, &have[*i], &exp.float_sum_cols)) {
                        Some(i) => used[i] = true,
                        None => return Some(("agg:wrong_value".into(), format!("no returned row matches expected group row {:?}; returned {:?}", w.iter().map(|c| c.short()).collect::<Vec<_>>(), short_rows(&have)))),
                    }
                }
                None
            } else if !exp.ordered_by_keys {
                if o.rows.len() != exp.rows.len() {
                    return Some((if o.rows.len() < exp.rows.len() { "rows:missing".into() } else { "rows:extra".to_string() }, format!("{} rows returned, {} expected", o.rows.len(), exp.rows.len())));
                }
                for (i, w) in exp.rows.iter().enumerate() {
                    if !rows_equal(w, &o.rows[i], &[]) {
                        return Some(("rows:wrong_row".into(), format!("row {i}: got {:?}, expected {:?}", o.rows[i].iter().map(|c| c.short()).collect::<Vec<_>>(), w.iter().map(|c| c.short()).collect::<Vec<_>>())));
                    }
                }
                None
            } else {
                // ordered: the id is the last select item (unique), keys decide positions
                if o.rows.len() != exp.rows.len() {
                    return Some((if o.rows.len() < exp.rows.len() { "order:too_few_rows".into() } else { "order:too_many_rows".to_string() }, format!("{} rows returned, {} expected (limit {:?} offset {:?} of {} filtered rows)", o.rows.len(), exp.rows.len(), q.limit, q.offset, exp.all_rows.len())));
                }
                let by_id: BTreeMap<Cell, &(Vec<Cell>, Vec<Cell>)> = exp.all_rows.iter().map(|r| (r.0.last().cloned().unwrap_or(Cell::N), r)).collect();
                let mut seen = std::collections::BTreeSet::new();
                for (i, row) in o.rows.iter().enumerate() {
                    let id = row.last().cloned().unwrap_or(Cell::N);
                    let src = match by_id.get(&id) {
                        Some(s) => s,
                        None => return Some(("order:unknown_row".into(), format!("row {i} {:?} is not a row of the filtered table", row.iter().map(|c| c.short()).collect::<Vec<_>>()))),
                    };
                    if !seen.insert(id.clone()) {
                        return Some(("order:row_twice".into(), format!("row with id {} returned twice", id.short())));
                    }
                    if !rows_equal(&src.0, row, &[]) {
                        return Some(("order:wrong_cells".into(), format!("row {i}: got {:?}, the table row with that id is {:?}", row.iter().map(|c| c.short()).collect::<Vec<_>>(), src.0.iter().map(|c| c.short()).collect::<Vec<_>>())));
                    }
                    // its key must be the key required at this position
                    let want_key = &exp.keys[i];
                    if !rows_equal(want_key, &src.1, &[]) {
                        return Some(("order:wrong_position".into(), format!("position {i}: row id {} has sort key {:?} but the key required there is {:?}", id.short(), src.1.iter().map(|c| c.short()).collect::<Vec<_>>(), want_key.iter().map(|c| c.short()).collect::<Vec<_>>())));
                    }
                }
                None
            }
        }
    }
}

fn short_rows(rows: &[Vec<Cell>]) -> Vec<Vec<String>> {
    rows.iter().take(8).map(|r| r.iter().map(|c| c.short()).collect()).collect()
}

pub fn exec_query(env: &mut Env, q: &QSpec, ctx: &str) {
    let t = match env.model.tables.get(&q.table) {
        Some(t) => t.clone(),
        None => return,
    };
    let exp = evaluate(q, &t);
    let got = env.query(&q.sql);
    if env.query_log.len() < 256 {
        env.query_log.push((q.sql.clone(), got.clone()));
    }
    if let Ok(o) = &got {
        crate::exec_more::check_wellformed(env, &q.sql, &Ok(o.clone()), ctx);
    }
    match &exp {
        Err(EvalErr::Unsupported(_)) => env.count("queries_outside_fragment"),
        Err(EvalErr::Overflow) => env.count("queries_expected_to_overflow"),
        Ok(e) if e.is_aggregate => env.count("queries_aggregate"),
        Ok(e) if e.ordered_by_keys => env.count("queries_ordered"),
        Ok(_) => env.count("queries_plain"),
    }
    if let Some((class, detail)) = compare(q, &exp, &got) {
        // the class names the query shape, so that an open finding about one shape (say OR over a
        // nullable column) does not hide a defect in another
        let class = class.replace("Some assumption was violated. This is a", "").replace("Type error: ", "");
        let mut feats = features(q, &t);
        let mut cols = Vec::new();
        query_cols(q, &mut cols);
        if cols.iter().any(|c| env.null_typed.contains(&(q.table.clone(), c.clone())) || t.col_index(c).is_none()) {
            feats = format!("null_typed_partition+{feats}");
        }
        env.violate(&format!("query|{}|{class}", dominant_feature(&feats)), format!("[{ctx}] {} :: {detail} (shape: {feats})", q.sql));
    } else {
        env.count("queries_matched");
    }
}

// ---------------------------------------------------------------------------------------------
// generation
// ---------------------------------------------------------------------------------------------

/// Column roles of the query tables (see props::query_schema)
pub struct QCols {
    pub ints: Vec<String>,
    pub floats: Vec<String>,
    pub strs: Vec<String>,
}

impl QCols {
    pub fn clone_cols(&self) -> QCols {
        QCols { ints: self.ints.clone(), floats: self.floats.clone(), strs: self.strs.clone() }
    }
    pub fn is_empty(&self) -> bool {
        self.ints.is_empty() && self.floats.is_empty() && self.strs.is_empty()
    }
}

fn col_values(t: &MTable, c: &str) -> Vec<Cell> {
    t.column(c).into_iter().filter(|x| !x.is_null()).collect()
}

/// a constant relative to the column's actual values: inside, at the edges, just outside, far outside
fn int_const(rng: &mut Rng, t: &MTable, c: &str) -> i64 {
    let vals: Vec<i64> = col_values(t, c).iter().filter_map(|x| if let Cell::I(i) = x { Some(*i) } else { None }).collect();
    if vals.is_empty() {
        return rng.range(-3, 3);
    }
    let (mn, mx) = (*vals.iter().min().unwrap(), *vals.iter().max().unwrap());
    let k = int_const_raw(rng, &vals, mn, mx);
    // (the literal -9223372036854775808 is read as a float by the parser)
    k.max(i64::MIN + 1)
}

fn int_const_raw(rng: &mut Rng, vals: &[i64], mn: i64, mx: i64) -> i64 {
    match rng.below(10) {
        0 => mn,
        1 => mx,
        2 => mn.saturating_sub(1),
        3 => mx.saturating_add(1).min(i64::MAX - 1),
        4 => *rng.pick(&[-1i64, 0, 255, 256, 65535, 65536, 4294967295, 4294967296]),
        5 => mn.saturating_sub(70000),
        6 => mx.saturating_add(5_000_000_000).min(i64::MAX - 1),
        _ => *rng.pick(vals),
    }
}

fn float_const(rng: &mut Rng, t: &MTable, c: &str) -> u64 {
    let vals: Vec<f64> = col_values(t, c).iter().filter_map(|x| x.as_f64()).collect();
    if vals.is_empty() {
        return (rng.range(-8, 8) as f64 / 4.0).to_bits();
    }
    let v = *rng.pick(&vals);
    match rng.below(4) {
        0 => v.to_bits(),
        1 => (v + 0.25).to_bits(),
        2 => (v - 0.25).to_bits(),
        _ => (rng.range(-4000, 4000) as f64 / 8.0).to_bits(),
    }
}

fn str_const(rng: &mut Rng, t: &MTable, c: &str) -> String {
    let vals: Vec<String> = col_values(t, c).iter().filter_map(|x| if let Cell::S(s) = x { Some(s.clone()) } else { None }).collect();
    if vals.is_empty() || rng.below(4) == 0 {
        return rng.pick(&["", "a", "k", "k1", "k11", "zzz", "K1", "k 1"]).to_string();
    }
    let v = rng.pick(&vals).clone();
    match rng.below(4) {
        0 => format!("{v}x"),
        1 if !v.is_empty() => {
            let mut cs: Vec<char> = v.chars().collect();
            cs.pop();
            cs.into_iter().collect()
        }
        _ => v,
    }
}

fn cmp_op(rng: &mut Rng) -> CmpOp {
    *rng.pick(&[CmpOp::Eq, CmpOp::Ne, CmpOp::Lt, CmpOp::Le, CmpOp::Gt, CmpOp::Ge])
}

/// columns of `cols` that hold no NULL anywhere in the table
fn non_null_cols(t: &MTable, cols: &QCols) -> QCols {
    let ok = |c: &String| t.col_index(c).is_some() && !t.column(c).iter().any(|x| x.is_null());
    QCols { ints: cols.ints.iter().filter(|c| ok(c)).cloned().collect(), floats: cols.floats.iter().filter(|c| ok(c)).cloned().collect(), strs: cols.strs.iter().filter(|c| ok(c)).cloned().collect() }
}

fn gen_leaf(rng: &mut Rng, t: &MTable, cols: &QCols, allow_is_null: bool) -> Pred {
    for _ in 0..8 {
        match rng.below(10) {
            0..=3 if !cols.ints.is_empty() => {
                let c = rng.pick(&cols.ints).clone();
                if crate::gen::spicy() && rng.below(6) == 0 && cols.ints.len() > 1 {
                    let d = rng.pick(&cols.ints).clone();
                    return Pred::Cmp(cmp_op(rng), Expr::Col(c), Expr::Col(d));
                }
                let k = int_const(rng, t, &c);
                // a float constant against an integer column: between two values, or integral
                // (only where every value converts to f64 exactly)
                let small = col_values(t, &c).iter().all(|x| matches!(x, Cell::I(v) if v.unsigned_abs() < (1u64 << 50)));
                if small && k.unsigned_abs() < (1u64 << 50) && rng.below(5) == 0 {
                    let f = k as f64 + *rng.pick(&[0.5f64, -0.5, 0.0, 0.25, -0.75]);
                    return Pred::Cmp(cmp_op(rng), Expr::Col(c), Expr::F(f.to_bits()));
                }
                return Pred::Cmp(cmp_op(rng), Expr::Col(c), Expr::I(k));
            }
            4..=5 if !cols.floats.is_empty() => {
                let c = rng.pick(&cols.floats).clone();
                let k = float_const(rng, t, &c);
                if rng.below(6) == 0 {
                    // an integer constant against a float column
                    let i = f64::from_bits(k).round();
                    if i.abs() < 1e15 {
                        return Pred::Cmp(cmp_op(rng), Expr::Col(c), Expr::I(i as i64));
                    }
                }
                return Pred::Cmp(cmp_op(rng), Expr::Col(c), Expr::F(k));
            }
            6..=7 if !cols.strs.is_empty() => {
                let c = rng.pick(&cols.strs).clone();
                let k = str_const(rng, t, &c);
                // (ordering comparisons on strings: spicy plans only, see known findings)
                let op = if crate::gen::spicy() { cmp_op(rng) } else { *rng.pick(&[CmpOp::Eq, CmpOp::Ne]) };
                return Pred::Cmp(op, Expr::Col(c), Expr::S(k));
            }
            8..=9 if allow_is_null => {
                let all: Vec<&String> = cols.ints.iter().chain(cols.floats.iter()).chain(cols.strs.iter()).collect();
                if all.is_empty() {
                    continue;
                }
                let c = (*rng.pick(&all)).clone();
                return if rng.below(2) == 0 { Pred::IsNull(c) } else { Pred::IsNotNull(c) };
            }
            _ => {}
        }
    }
    Pred::Cmp(CmpOp::Ge, Expr::Col("id".into()), Expr::I(0))
}

fn gen_tree(rng: &mut Rng, t: &MTable, cols: &QCols, depth: u32) -> Pred {
    if depth == 0 || rng.below(3) == 0 {
        return gen_leaf(rng, t, cols, false);
    }
    let a = gen_tree(rng, t, cols, depth - 1);
    let b = gen_tree(rng, t, cols, depth - 1);
    match rng.below(5) {
        0..=1 => Pred::And(Box::new(a), Box::new(b)),
        2..=3 => Pred::Or(Box::new(a), Box::new(b)),
        _ => Pred::Not(Box::new(a)),
    }
}

/// Predicates. Spicy plans draw arbitrary AND/OR/NOT trees over all columns. Mild plans keep OR and
/// NOT away from columns that hold NULLs (the engine mishandles those, see known findings): a
/// conjunction of leaves over any column and of OR/NOT trees over NULL-free columns.
pub fn gen_pred(rng: &mut Rng, t: &MTable, cols: &QCols, depth: u32) -> Pred {
    if crate::gen::spicy() {
        let all = QCols { ints: cols.ints.clone(), floats: cols.floats.clone(), strs: cols.strs.clone() };
        if depth == 0 {
            return gen_leaf(rng, t, &all, true);
        }
        let a = gen_pred(rng, t, cols, depth - 1);
        let b = gen_pred(rng, t, cols, depth - 1);
        return match rng.below(5) {
            0..=1 => Pred::And(Box::new(a), Box::new(b)),
            2..=3 => Pred::Or(Box::new(a), Box::new(b)),
            _ => Pred::Not(Box::new(a)),
        };
    }
    // Mild: the engine's three-valued logic is only dependable for a single comparison on a
    // nullable column (see known findings), so: an AND/OR/NOT tree over NULL-free columns, and at
    // most one leaf on a nullable column as a top-level conjunct.
    // ... and at most one comparison with a string constant (two make the executor fail, see
    // known findings `str_const_leaves2`).
    let mut p = gen_pred_mild(rng, t, cols, depth);
    for _ in 0..8 {
        if str_const_leaves(&p) < 2 {
            break;
        }
        p = gen_pred_mild(rng, t, cols, depth);
    }
    if str_const_leaves(&p) >= 2 {
        let ints = QCols { ints: vec!["id".to_string()], floats: vec![], strs: vec![] };
        p = gen_leaf(rng, t, &ints, true);
    }
    p
}

pub fn str_const_leaves(p: &Pred) -> usize {
    match p {
        Pred::And(a, b) | Pred::Or(a, b) => str_const_leaves(a) + str_const_leaves(b),
        Pred::Not(a) => str_const_leaves(a),
        Pred::Cmp(_, a, b) => (matches!(a, Expr::S(_)) || matches!(b, Expr::S(_))) as usize,
        _ => 0,
    }
}

fn gen_pred_mild(rng: &mut Rng, t: &MTable, cols: &QCols, depth: u32) -> Pred {
    let nn = non_null_cols(t, cols);
    let mut p = if nn.is_empty() { gen_leaf(rng, t, cols, true) } else { gen_tree(rng, t, &nn, depth) };
    if rng.below(2) == 0 {
        let nullable = QCols {
            ints: cols.ints.iter().filter(|c| !nn.ints.contains(c)).cloned().collect(),
            floats: cols.floats.iter().filter(|c| !nn.floats.contains(c)).cloned().collect(),
            strs: cols.strs.iter().filter(|c| !nn.strs.contains(c)).cloned().collect(),
        };
        if !nullable.is_empty() {
            let leaf = gen_leaf(rng, t, &nullable, true);
            p = if rng.below(3) == 0 && depth == 0 { leaf } else { Pred::And(Box::new(p), Box::new(leaf)) };
        }
    }
    p
}

pub fn gen_int_expr(rng: &mut Rng, t: &MTable, cols: &QCols, depth: u32, edgy: bool) -> Expr {
    let spicy = crate::gen::spicy();
    let pool: Vec<String> = if spicy { cols.ints.clone() } else { non_null_cols(t, cols).ints };
    let pool = if pool.is_empty() { vec!["id".to_string()] } else { pool };
    let konst = |rng: &mut Rng| {
        let k = if edgy { *rng.pick(&[0i64, 1, -1, 2, 255, 256, 65536, 4294967296, i64::MAX - 1, i64::MIN + 1, 4611686018427387904, -4611686018427387904, 3037000500]) } else { rng.range(-20, 20) };
        Expr::I(k)
    };
    if depth == 0 {
        return Expr::Col(rng.pick(&pool).clone());
    }
    // (a subtree made of constants only trips the planner's constant folding, see known
    // findings: mild plans keep a column in every operand pair)
    let a = Box::new(gen_int_expr(rng, t, cols, depth - 1, edgy));
    let b = if rng.below(2) == 0 { Box::new(konst(rng)) } else { Box::new(gen_int_expr(rng, t, cols, depth - 1, edgy)) };
    let (a, b) = if spicy && rng.below(4) == 0 { (Box::new(konst(rng)), b) } else if rng.below(3) == 0 { (b, a) } else { (a, b) };
    match rng.below(6) {
        0..=1 => Expr::Add(a, b),
        2 => Expr::Sub(a, b),
        3 => Expr::Mul(a, b),
        4 => Expr::Div(a, b),
        _ => Expr::Mod(a, b),
    }
}

#[derive(Clone, Copy, PartialEq, Eq, Debug)]
pub enum QKind {
    Filter,
    Order,
    Arith,
    Agg,
    SumOverflow,
}

pub fn gen_query(rng: &mut Rng, table: &str, t: &MTable, cols: &QCols, kind: QKind) -> QSpec {
    let mut q = QSpec { table: table.to_string(), select: vec![], filter: None, order: vec![], limit: None, offset: None, sql: String::new() };
    let id = Expr::Col("id".into());
    let n = t.rows.len() as u64;
    let spicy = crate::gen::spicy();
    let nn = non_null_cols(t, cols);
    match kind {
        QKind::Filter => {
            let d = rng.below(4) as u32;
            q.filter = Some(gen_pred(rng, t, cols, d));
            if rng.below(3) == 0 {
                let all: Vec<&String> = cols.ints.iter().chain(cols.floats.iter()).chain(cols.strs.iter()).collect();
                q.select.push(SelItem::E(Expr::Col((*rng.pick(&all)).clone())));
            }
            q.select.push(SelItem::E(id));
        }
        QKind::Order => {
            if rng.below(2) == 0 {
                q.filter = Some(gen_pred(rng, t, cols, 1));
            }
            let pool = if spicy { cols.clone_cols() } else { nn.clone_cols() };
            let all: Vec<&String> = pool.ints.iter().chain(pool.floats.iter()).chain(pool.strs.iter()).collect();
            let nk = 1 + rng.below(3);
            for _ in 0..nk {
                let c = (*rng.pick(&all)).clone();
                let e = if cols.ints.contains(&c) && rng.below(5) == 0 { Expr::Add(Box::new(Expr::Col(c.clone())), Box::new(Expr::I(rng.range(-3, 3)))) } else { Expr::Col(c.clone()) };
                q.order.push((e, rng.below(2) == 0));
                if !q.select.contains(&SelItem::E(Expr::Col(c.clone()))) {
                    q.select.push(SelItem::E(Expr::Col(c)));
                }
            }
            q.select.push(SelItem::E(id));
            // limits / offsets in 0..n+2, around half the table and partition sizes
            if rng.below(5) != 0 {
                q.limit = Some(match rng.below(6) {
                    0 => 0,
                    1 => 1,
                    2 => n / 2,
                    3 => n / 2 + 1,
                    4 => n + 2,
                    _ => rng.below(n + 3),
                });
            }
            if rng.below(2) == 0 && q.limit.is_some() {
                q.offset = Some(match rng.below(5) {
                    0 => 0,
                    1 => 1,
                    2 => n,
                    3 => n + 2,
                    _ => rng.below(n + 3),
                });
            }
        }
        QKind::Arith => {
            let edgy = rng.below(2) == 0;
            let d = 1 + rng.below(3) as u32;
            q.select.push(SelItem::E(gen_int_expr(rng, t, cols, d, edgy)));
            q.select.push(SelItem::E(id));
            if rng.below(3) == 0 {
                q.filter = Some(gen_pred(rng, t, cols, 1));
            }
        }
        QKind::Agg | QKind::SumOverflow => {
            let ng = if kind == QKind::SumOverflow { rng.below(2) } else if spicy { rng.below(4) } else { rng.below(2) };
            // mild: group by at most one NULL-free int / string column
            // (grouping by wide integers — i2 in the C06 tables — trips open findings: mild plans group by g / strings)
            let gpool = if spicy { cols.clone_cols() } else { QCols { ints: nn.ints.iter().filter(|c| *c == "g").cloned().collect(), floats: vec![], strs: nn.strs.clone() } };
            let all: Vec<&String> = gpool.ints.iter().chain(gpool.floats.iter()).chain(gpool.strs.iter()).collect();
            for _ in 0..(if all.is_empty() { 0 } else { ng }) {
                let c = (*rng.pick(&all)).clone();
                let e = if spicy && cols.ints.contains(&c) && rng.below(4) == 0 { Expr::Div(Box::new(Expr::Col(c)), Box::new(Expr::I(*rng.pick(&[2i64, 3, 5, 100])))) } else { Expr::Col(c) };
                if !q.select.contains(&SelItem::E(e.clone())) {
                    q.select.push(SelItem::E(e));
                }
            }
            let na = 1 + rng.below(3);
            for _ in 0..na {
                let f = if kind == QKind::SumOverflow { AggFn::Sum } else { *rng.pick(&[AggFn::Count, AggFn::Sum, AggFn::Min, AggFn::Max]) };
                // (mild: integer and float columns, nullable ones included; the float values are dyadic, so sums are exact)
                let apool = if spicy { cols.clone_cols() } else { QCols { ints: cols.ints.clone(), floats: cols.floats.clone(), strs: vec![] } };
                let numeric: Vec<&String> = apool.ints.iter().chain(apool.floats.iter()).collect();
                let arg = if f == AggFn::Count && rng.below(2) == 0 {
                    Expr::I(1)
                } else if kind == QKind::Agg && t.col_index("x").is_some() && rng.below(4) == 0 {
                    // the column whose partitions differ in numeric type
                    Expr::Col("x".into())
                } else if kind == QKind::SumOverflow {
                    Expr::Col(rng.pick(&apool.ints).clone())
                } else {
                    Expr::Col((*rng.pick(&numeric)).clone())
                };
                // (aggregating the grouping column itself trips an open finding)
                if !spicy && q.select.contains(&SelItem::E(arg.clone())) {
                    continue;
                }
                q.select.push(SelItem::Agg(f, arg));
            }
            if rng.below(3) == 0 {
                q.filter = Some(gen_pred(rng, t, cols, 1));
            }
        }
    }
    render(&mut q);
    q
}


/// C02: the same query on two physical realisations of one logical table gives the same answer
/// (row order matters only for non-aggregate queries; float sums up to rounding).
pub fn differential(a: &[(String, Result<QOut, QErr>)], b: &[(String, Result<QOut, QErr>)]) -> Option<Violation> {
    for ((sa, ra), (sb, rb)) in a.iter().zip(b.iter()) {
        if sa.split(" FROM ").next() != sb.split(" FROM ").next() {
            continue;
        }
        let is_agg = ["COUNT(", "SUM(", "MIN(", "MAX("].iter().any(|f| sa.contains(f));
        let has_order = sa.contains(" ORDER BY ");
        match (ra, rb) {
            (Ok(x), Ok(y)) => {
                let (mut rx, mut ry) = (x.rows.clone(), y.rows.clone());
                if is_agg || has_order {
                    // order of groups / of tied rows is free
                    rx.sort();
                    ry.sort();
                }
                let same = rx.len() == ry.len() && rx.iter().zip(ry.iter()).all(|(p, q)| p.len() == q.len() && p.iter().zip(q.iter()).all(|(c, d)| cells_equal(c, d, is_agg)));
                if !same && !(has_order && (sa.contains(" LIMIT ") || sa.contains(" OFFSET "))) {
                    return Some(Violation { class: "differential:results_differ".into(), detail: format!("{sa}: realisation A returned {:?}, realisation B {:?}", short_rows(&rx), short_rows(&ry)) });
                }
            }
            (Err(_), Err(_)) => {}
            (Ok(x), Err(e)) | (Err(e), Ok(x)) => {
                return Some(Violation { class: format!("differential:one_fails:{}", e.kind()), detail: format!("{sa}: one realisation answers ({} rows), the other fails with {}: {}", x.rows.len(), e.kind(), e.msg()) });
            }
        }
    }
    None
}


/// Shape signature of a query: which of the constructs with their own semantics it uses.
pub fn features(q: &QSpec, t: &MTable) -> String {
    let nullable = |c: &str| t.col_index(c).is_none() || t.column(c).iter().any(|x| x.is_null());
    fn expr_cols(e: &Expr, out: &mut Vec<String>) {
        match e {
            Expr::Col(c) => out.push(c.clone()),
            Expr::Add(a, b) | Expr::Sub(a, b) | Expr::Mul(a, b) | Expr::Div(a, b) | Expr::Mod(a, b) => {
                expr_cols(a, out);
                expr_cols(b, out);
            }
            _ => {}
        }
    }
    fn pred_cols(p: &Pred, out: &mut Vec<String>) {
        match p {
            Pred::Cmp(_, a, b) => {
                expr_cols(a, out);
                expr_cols(b, out);
            }
            Pred::IsNull(c) | Pred::IsNotNull(c) => out.push(c.clone()),
            Pred::And(a, b) | Pred::Or(a, b) => {
                pred_cols(a, out);
                pred_cols(b, out);
            }
            Pred::Not(a) => pred_cols(a, out),
        }
    }
    let mut f: std::collections::BTreeSet<&'static str> = std::collections::BTreeSet::new();
    fn walk(p: &Pred, nullable: &dyn Fn(&str) -> bool, f: &mut std::collections::BTreeSet<&'static str>, under_or: bool, under_not: bool) {
        match p {
            Pred::Cmp(op, a, b) => {
                let mut cs = Vec::new();
                expr_cols(a, &mut cs);
                expr_cols(b, &mut cs);
                let any_null = cs.iter().any(|c| nullable(c));
                if any_null && under_or {
                    f.insert("nullable_under_or");
                }
                if any_null && under_not {
                    f.insert("nullable_under_not");
                }
                if matches!(b, Expr::S(_)) {
                    f.insert(if matches!(op, CmpOp::Eq | CmpOp::Ne) { "str_eq" } else { "str_order" });
                }
                if matches!(b, Expr::Col(_)) {
                    f.insert("col_col");
                }
                if matches!(b, Expr::F(_)) {
                    f.insert("float_cmp");
                }
                if any_null {
                    f.insert("nullable_cmp");
                }
            }
            Pred::IsNull(c) | Pred::IsNotNull(c) => {
                f.insert("is_null");
                if under_or {
                    f.insert("is_null_under_or");
                }
                if under_not {
                    f.insert("is_null_under_not");
                }
                let _ = c;
            }
            Pred::And(a, b) => {
                f.insert("and");
                walk(a, nullable, f, under_or, under_not);
                walk(b, nullable, f, under_or, under_not);
            }
            Pred::Or(a, b) => {
                f.insert("or");
                walk(a, nullable, f, true, under_not);
                walk(b, nullable, f, true, under_not);
            }
            Pred::Not(a) => {
                f.insert("not");
                walk(a, nullable, f, under_or, true);
            }
        }
    }
    if let Some(p) = &q.filter {
        walk(p, &nullable, &mut f, false, false);
        // leaves on nullable columns / string constants the column does not hold
        fn leaves<'a>(p: &'a Pred, out: &mut Vec<&'a Pred>) {
            match p {
                Pred::And(a, b) | Pred::Or(a, b) => {
                    leaves(a, out);
                    leaves(b, out);
                }
                Pred::Not(a) => leaves(a, out),
                l => out.push(l),
            }
        }
        let mut ls = Vec::new();
        leaves(p, &mut ls);
        let mut nullable_leaves = 0;
        let absent_consts = str_const_leaves(p);
        for l in ls {
            match l {
                Pred::Cmp(_, a, b) => {
                    let mut cs = Vec::new();
                    expr_cols(a, &mut cs);
                    expr_cols(b, &mut cs);
                    if cs.iter().any(|c| nullable(c)) {
                        nullable_leaves += 1;
                    }
                    if let (Expr::Col(cn), Expr::F(_) | Expr::I(_)) = (a, b) {
                        // a constant of the other numeric type than the column's
                        let is_float_const = matches!(b, Expr::F(_));
                        let tm = t.col_index(cn).map(|i| t.type_mix(i)).unwrap_or((false, false, false));
                        if (is_float_const && tm.0 && !tm.1) || (!is_float_const && tm.1 && !tm.0) {
                            f.insert("cross_type_const");
                        }
                    }
                }
                Pred::IsNull(c) | Pred::IsNotNull(c) => {
                    if nullable(c) {
                        nullable_leaves += 1;
                    }
                }
                _ => {}
            }
        }
        if nullable_leaves >= 2 {
            f.insert("nullable_leaves2");
        }
        if absent_consts >= 2 {
            f.insert("str_const_leaves2");
        }
    }
    fn has_const_only_subtree(e: &Expr) -> bool {
        fn cols_in(e: &Expr) -> usize {
            match e {
                Expr::Col(_) => 1,
                Expr::Add(a, b) | Expr::Sub(a, b) | Expr::Mul(a, b) | Expr::Div(a, b) | Expr::Mod(a, b) => cols_in(a) + cols_in(b),
                _ => 0,
            }
        }
        match e {
            Expr::Add(a, b) | Expr::Sub(a, b) | Expr::Mul(a, b) | Expr::Div(a, b) | Expr::Mod(a, b) => (cols_in(a) == 0 && cols_in(b) == 0) || has_const_only_subtree(a) || has_const_only_subtree(b),
            Expr::Col(_) => false,
            // a bare constant as a select item / sort key
            _ => false,
        }
    }
    for s in &q.select {
        match s {
            SelItem::E(e) => {
                if matches!(e, Expr::I(_) | Expr::F(_) | Expr::S(_)) || has_const_only_subtree(e) {
                    f.insert("const_expr");
                }
                if !matches!(e, Expr::Col(_)) {
                    f.insert("select_expr");
                    let mut cs = Vec::new();
                    expr_cols(e, &mut cs);
                    if cs.iter().any(|c| nullable(c)) {
                        f.insert("arith_nullable");
                    }
                }
            }
            SelItem::Agg(a, e) => {
                if q.select.contains(&SelItem::E(e.clone())) {
                    f.insert("agg_on_group_col");
                }
                f.insert(match a {
                    AggFn::Count => "count",
                    AggFn::Sum => "sum",
                    AggFn::Min => "min",
                    AggFn::Max => "max",
                });
                let mut cs = Vec::new();
                expr_cols(e, &mut cs);
                if cs.iter().any(|c| nullable(c)) {
                    f.insert("agg_nullable");
                }
                if cs.iter().any(|c| t.col_index(c).map(|i| t.type_mix(i).1).unwrap_or(false)) {
                    f.insert("agg_float");
                }
            }
        }
    }
    let is_agg = q.select.iter().any(|s| matches!(s, SelItem::Agg(..)));
    if is_agg && sum_partial_hits_marker(q, t) {
        f.insert("sum_partial_is_null_marker");
    }
    if is_agg {
        let ng = q.select.iter().filter(|s| matches!(s, SelItem::E(_))).count();
        f.insert(match ng {
            0 => "group0",
            1 => "group1",
            _ => "groupN",
        });
        for s in &q.select {
            if let SelItem::E(e) = s {
                let mut cs = Vec::new();
                expr_cols(e, &mut cs);
                if cs.iter().any(|c| nullable(c)) {
                    f.insert("group_nullable");
                }
                if cs.iter().any(|c| t.col_index(c).map(|i| t.type_mix(i).2).unwrap_or(false)) {
                    f.insert("group_str");
                }
                if cs.iter().any(|c| t.col_index(c).map(|i| t.type_mix(i).1).unwrap_or(false)) {
                    f.insert("group_float");
                }
            }
        }
    }
    if !q.order.is_empty() {
        f.insert(if q.order.len() == 1 { "order1" } else { "orderN" });
        for (e, d) in &q.order {
            let mut cs = Vec::new();
            expr_cols(e, &mut cs);
            if cs.iter().any(|c| nullable(c)) {
                f.insert("order_nullable");
            }
            if *d {
                f.insert("desc");
            }
            if !matches!(e, Expr::Col(_)) {
                f.insert("order_expr");
            }
        }
    }
    if q.limit.is_some() {
        f.insert("limit");
    }
    if q.offset.is_some() {
        f.insert("offset");
    }
    if q.filter.is_some() && (is_agg || !q.order.is_empty()) {
        f.insert("filtered");
    }
    f.into_iter().collect::<Vec<_>>().join("+")
}


/// SUM is computed per partition and the partial sums are merged. A partition holds a contiguous
/// range of rows, so the partial sum of a group is the sum of a contiguous run of the group's
/// qualifying values: true if some such run (not the whole sum) adds up to exactly i64::MAX, the
/// engine's in-band NULL marker for integers.
fn sum_partial_hits_marker(q: &QSpec, t: &MTable) -> bool {
    let group_exprs: Vec<&Expr> = q.select.iter().filter_map(|s| if let SelItem::E(e) = s { Some(e) } else { None }).collect();
    for s in &q.select {
        let SelItem::Agg(AggFn::Sum, e) = s else { continue };
        let mut groups: std::collections::BTreeMap<String, Vec<i128>> = Default::default();
        for row in 0..t.rows.len() {
            if let Some(p) = &q.filter {
                if !matches!(eval_pred(p, t, row), Ok(Some(true))) {
                    continue;
                }
            }
            let key: String = group_exprs.iter().map(|g| eval_expr(g, t, row).map(|c| c.short()).unwrap_or_default()).collect::<Vec<_>>().join("\u{1}");
            if let Ok(Cell::I(v)) = eval_expr(e, t, row) {
                groups.entry(key).or_default().push(v as i128);
            }
        }
        for vals in groups.values() {
            if vals.len() > 2000 {
                continue;
            }
            for i in 0..vals.len() {
                let mut acc: i128 = 0;
                for v in &vals[i..] {
                    acc += v;
                    if acc == i64::MAX as i128 {
                        return true;
                    }
                }
            }
        }
    }
    false
}

/// The construct of a shape signature most likely to matter, by a fixed priority: keeps the number
/// of violation classes small while still separating the shapes with known trouble from the rest.
pub fn dominant_feature(features: &str) -> &'static str {
    const PRIORITY: &[&str] = &[
        "null_typed_partition",
        "sum_partial_is_null_marker",
        "const_expr",
        "agg_on_group_col",
        "nullable_under_not",
        "nullable_under_or",
        "is_null_under_not",
        "is_null_under_or",
        "col_col",
        "nullable_leaves2",
        "str_const_leaves2",
        "arith_nullable",
        "group_nullable",
        "order_nullable",
        "str_order",
        "group_float",
        "groupN",
        "cross_type_const",
        "nullable_cmp",
        "float_cmp",
        "str_eq",
        "group_str",
        "order_expr",
        "orderN",
        "select_expr",
        "offset",
        "limit",
        "not",
        "or",
        "is_null",
    ];
    let fs: Vec<&str> = features.split('+').collect();
    for p in PRIORITY {
        if fs.contains(p) {
            return p;
        }
    }
    "plain"
}


/// every column a query mentions
pub fn query_cols(q: &QSpec, out: &mut Vec<String>) {
    fn ex(e: &Expr, out: &mut Vec<String>) {
        match e {
            Expr::Col(c) => out.push(c.clone()),
            Expr::Add(a, b) | Expr::Sub(a, b) | Expr::Mul(a, b) | Expr::Div(a, b) | Expr::Mod(a, b) => {
                ex(a, out);
                ex(b, out);
            }
            _ => {}
        }
    }
    fn pr(p: &Pred, out: &mut Vec<String>) {
        match p {
            Pred::Cmp(_, a, b) => {
                ex(a, out);
                ex(b, out);
            }
            Pred::IsNull(c) | Pred::IsNotNull(c) => out.push(c.clone()),
            Pred::And(a, b) | Pred::Or(a, b) => {
                pr(a, out);
                pr(b, out);
            }
            Pred::Not(a) => pr(a, out),
        }
    }
    for s in &q.select {
        match s {
            SelItem::E(e) | SelItem::Agg(_, e) => ex(e, out),
        }
    }
    if let Some(p) = &q.filter {
        pr(p, out);
    }
    for (e, _) in &q.order {
        ex(e, out);
    }
}
