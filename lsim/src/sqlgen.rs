//! Query *strings* for C11/C12: grammar-generated statements of the supported subset with random
//! nesting, quoting, aliases and literal forms; every unsupported construct the SQL parser accepts;
//! failing requests of each kind; byte-level mutations of valid statements. (Plain seeded
//! generation — the simulator's part is who executes them concurrently with what.)

use locustdb_simrt::core::Rng;

pub struct TableInfo {
    pub name: String,
    pub int_cols: Vec<String>,
    pub float_cols: Vec<String>,
    pub str_cols: Vec<String>,
}

fn q(s: &str) -> String {
    format!("\"{s}\"")
}

fn col(rng: &mut Rng, t: &TableInfo) -> String {
    let mut all: Vec<&String> = t.int_cols.iter().chain(t.float_cols.iter()).chain(t.str_cols.iter()).collect();
    if all.is_empty() {
        return "id".into();
    }
    let c = all.remove(rng.below(all.len() as u64) as usize);
    if rng.below(3) == 0 {
        q(c)
    } else {
        c.clone()
    }
}

fn int_col(rng: &mut Rng, t: &TableInfo) -> String {
    if t.int_cols.is_empty() {
        "id".into()
    } else {
        rng.pick(&t.int_cols).clone()
    }
}

pub fn int_literal(rng: &mut Rng) -> String {
    match rng.below(12) {
        0 => "0".into(),
        1 => "-1".into(),
        2 => "255".into(),
        3 => "256".into(),
        4 => "65536".into(),
        5 => "4294967296".into(),
        6 => "9223372036854775807".into(),
        7 => "-9223372036854775808".into(),
        8 => "18446744073709551616".into(), // beyond u64
        9 => "1e3".into(),
        10 => "2.5".into(),
        _ => format!("{}", rng.range(-1000, 1000)),
    }
}

fn str_literal(rng: &mut Rng) -> String {
    rng.pick(&["'k1'", "''", "'it''s'", "'%a%'", "'é'", "'_'", "'.*'", "'[a-z]+'", "'('", "'k0'"]).to_string()
}

pub fn scalar_expr(rng: &mut Rng, t: &TableInfo, depth: u32) -> String {
    if depth == 0 || rng.below(3) == 0 {
        return match rng.below(6) {
            0..=2 => col(rng, t),
            3 => int_literal(rng),
            4 => str_literal(rng),
            _ => "nosuchcol".into(),
        };
    }
    let a = scalar_expr(rng, t, depth - 1);
    let b = scalar_expr(rng, t, depth - 1);
    match rng.below(10) {
        0 => format!("{a} + {b}"),
        1 => format!("{a} - {b}"),
        2 => format!("{a} * {b}"),
        3 => format!("{a} / {b}"),
        4 => format!("{a} % {b}"),
        5 => format!("({a})"),
        6 => format!("-{a}"),
        7 => format!("length({a})"),
        8 => format!("floor({a})"),
        _ => format!("to_year({a})"),
    }
}

pub fn predicate(rng: &mut Rng, t: &TableInfo, depth: u32) -> String {
    if depth == 0 || rng.below(3) == 0 {
        let a = scalar_expr(rng, t, 1);
        return match rng.below(10) {
            0 => format!("{a} = {}", scalar_expr(rng, t, 1)),
            1 => format!("{a} <> {}", scalar_expr(rng, t, 1)),
            2 => format!("{a} < {}", scalar_expr(rng, t, 1)),
            3 => format!("{a} <= {}", scalar_expr(rng, t, 1)),
            4 => format!("{a} > {}", scalar_expr(rng, t, 1)),
            5 => format!("{a} >= {}", scalar_expr(rng, t, 1)),
            6 => format!("{a} IS NULL"),
            7 => format!("{a} IS NOT NULL"),
            8 => format!("{a} LIKE {}", str_literal(rng)),
            _ => format!("regex({a}, {})", str_literal(rng)),
        };
    }
    let a = predicate(rng, t, depth - 1);
    let b = predicate(rng, t, depth - 1);
    match rng.below(4) {
        0 => format!("{a} AND {b}"),
        1 => format!("{a} OR {b}"),
        2 => format!("NOT ({a})"),
        _ => format!("({a})"),
    }
}

fn agg(rng: &mut Rng, t: &TableInfo) -> String {
    let f = rng.pick(&["COUNT", "SUM", "MIN", "MAX", "AVG", "count", "Sum"]).to_string();
    let arg = match rng.below(4) {
        0 => "1".to_string(),
        1 => int_col(rng, t),
        _ => scalar_expr(rng, t, 1),
    };
    format!("{f}({arg})")
}

/// A statement of the supported subset (may still fail at run time: type errors, overflow ...).
pub fn supported(rng: &mut Rng, t: &TableInfo) -> String {
    let mut items: Vec<String> = Vec::new();
    let n = 1 + rng.below(4);
    for i in 0..n {
        let mut e = match rng.below(10) {
            0 if i == 0 => "*".to_string(),
            1..=2 => agg(rng, t),
            _ => {
                let d = rng.below(3) as u32;
                scalar_expr(rng, t, d)
            }
        };
        if e != "*" && rng.below(4) == 0 {
            let alias = rng.pick(&["x", "\"my col\"", "total", "id"]).to_string();
            e = format!("{e} AS {alias}");
        }
        items.push(e);
    }
    let mut s = format!("SELECT {} FROM {}", items.join(", "), if rng.below(2) == 0 { q(&t.name) } else { t.name.clone() });
    if rng.below(2) == 0 {
        let d = rng.below(3) as u32;
        s += &format!(" WHERE {}", predicate(rng, t, d));
    }
    if rng.below(3) == 0 {
        let k = 1 + rng.below(2);
        let keys: Vec<String> = (0..k).map(|_| format!("{}{}", scalar_expr(rng, t, 1), rng.pick(&["", " ASC", " DESC"]))).collect();
        s += &format!(" ORDER BY {}", keys.join(", "));
    }
    if rng.below(2) == 0 {
        s += &format!(" LIMIT {}", rng.pick(&["0", "1", "2", "5", "100", "18446744073709551615"]));
        if rng.below(3) == 0 {
            s += &format!(" OFFSET {}", rng.pick(&["0", "1", "3", "1000"]));
        }
    }
    if rng.below(8) == 0 {
        s.push(';');
    }
    s
}

/// Constructs sqlparser accepts but LocustDB does not support, and plainly failing requests.
pub fn unsupported_or_failing(rng: &mut Rng, t: &TableInfo) -> String {
    let c = int_col(rng, t);
    let v = all_unsupported_or_failing(&c, t);
    rng.pick(&v).clone()
}

/// every template, for column `c` (also used to warm a process up: each error path once)
pub fn all_unsupported_or_failing(c: &str, t: &TableInfo) -> Vec<String> {
    let tn = q(&t.name);
    let v: Vec<String> = vec![
        format!("SELECT {c} FROM {tn} GROUP BY {c}"),
        format!("SELECT DISTINCT {c} FROM {tn}"),
        format!("SELECT a.{c} FROM {tn} a JOIN {tn} b ON a.{c} = b.{c}"),
        format!("SELECT {c} FROM {tn}, {tn}"),
        format!("SELECT {c} FROM (SELECT {c} FROM {tn})"),
        format!("SELECT {c} FROM {tn} WHERE {c} IN (1, 2, 3)"),
        format!("SELECT {c} FROM {tn} WHERE {c} BETWEEN 1 AND 5"),
        format!("SELECT CASE WHEN {c} > 1 THEN 1 ELSE 0 END FROM {tn}"),
        format!("SELECT COUNT(1) FROM {tn} HAVING COUNT(1) > 1"),
        format!("SELECT {c} FROM {tn} WHERE {c} IN (SELECT {c} FROM {tn})"),
        format!("SELECT {c} FROM {tn} UNION SELECT {c} FROM {tn}"),
        format!("SELECT {c} FROM {tn} ORDER BY {c} LIMIT 1.5"),
        format!("SELECT {c} FROM {tn} LIMIT -1"),
        format!("SELECT {c} FROM {tn} LIMIT {c}"),
        format!("SELECT {c} FROM {tn} OFFSET 2"),
        format!("SELECT {c} FROM {tn} LIMIT 2 OFFSET 100000"),
        format!("SELECT {c} FROM {tn} LIMIT 99999999999999999999"),
        format!("SELECT {c} / 0 FROM {tn}"),
        format!("SELECT {c} % 0 FROM {tn}"),
        format!("SELECT 9223372036854775807 + {c} FROM {tn}"),
        format!("SELECT {c} * 9223372036854775807 FROM {tn}"),
        format!("SELECT SUM({c} * 4611686018427387904) FROM {tn}"),
        // (overflow that only shows when the partial sums of several partitions are merged)
        format!("SELECT SUM({c}) FROM {tn}"),
        format!("SELECT SUM({c}), COUNT(1) FROM {tn} WHERE {c} > 0"),
        format!("SELECT SUM({c} + 1152921504606846976) FROM {tn}"),
        format!("SELECT {c} + 'a' FROM {tn}"),
        format!("SELECT length({c}) FROM {tn}"),
        format!("SELECT regex({c}, '(') FROM {tn}"),
        format!("SELECT {c} FROM {tn} WHERE regex({c}, '[')"),
        format!("SELECT to_year('x') FROM {tn}"),
        format!("SELECT nosuchfunc({c}) FROM {tn}"),
        format!("SELECT COUNT() FROM {tn}"),
        format!("SELECT COUNT({c}, {c}) FROM {tn}"),
        format!("SELECT SUM(SUM({c})) FROM {tn}"),
        format!("SELECT MAX({c}) + {c} FROM {tn}"),
        "SELECT 1".to_string(),
        "SELECT".to_string(),
        "".to_string(),
        ";".to_string(),
        "SELEC nonsense".to_string(),
        "SELECT * FROM nosuchtable".to_string(),
        "SELECT * FROM".to_string(),
        format!("SELECT * FROM {tn}; SELECT * FROM {tn}"),
        format!("INSERT INTO {tn} VALUES (1)"),
        format!("DROP TABLE {tn}"),
        format!("UPDATE {tn} SET {c} = 1"),
        format!("SELECT * , {c} FROM {tn}"),
        format!("SELECT {tn}.* FROM {tn}"),
        format!("SELECT {c} FROM {tn} WHERE"),
        format!("SELECT {c} FROM {tn} ORDER BY"),
        format!("SELECT {c} AS FROM {tn}"),
        format!("SELECT \"unterminated FROM {tn}"),
        format!("SELECT 'unterminated FROM {tn}"),
        format!("SELECT {c} FROM {tn} WHERE {c} = NULL"),
        format!("SELECT NULL FROM {tn}"),
        format!("SELECT {c} FROM {tn} WHERE NOT {c}"),
        format!("SELECT {c} FROM {tn} WHERE {c}"),
        format!("SELECT -{c} FROM {tn} WHERE -{c} > 0"),
        format!("SELECT {c} FROM {tn} ORDER BY nosuchcol DESC LIMIT 3"),
        format!("SELECT ((((((((((((((((((((((((((((((({c}))))))))))))))))))))))))))))))) FROM {tn}"),
    ];
    v
}

/// Byte-level mutation of a statement (kept valid UTF-8: the API takes &str).
pub fn mutate(rng: &mut Rng, s: &str) -> String {
    let mut chars: Vec<char> = s.chars().collect();
    let n = 1 + rng.below(3);
    for _ in 0..n {
        if chars.is_empty() {
            chars.push('S');
            continue;
        }
        let i = rng.below(chars.len() as u64) as usize;
        match rng.below(6) {
            0 => {
                chars.remove(i);
            }
            1 => chars.insert(i, *rng.pick(&['(', ')', '\'', '"', ',', '*', ' ', ';', '-', '0', '.', '\u{e9}', '`', '%'])),
            2 => chars[i] = *rng.pick(&['(', ')', '\'', '"', ',', '*', ' ', '=', '<', '9']),
            3 => {
                let j = rng.below(chars.len() as u64) as usize;
                chars.swap(i, j);
            }
            4 => chars.truncate(i),
            _ => {
                let seg: Vec<char> = chars[i..].iter().take(6).cloned().collect();
                for (k, c) in seg.into_iter().enumerate() {
                    chars.insert(i + k, c);
                }
            }
        }
    }
    chars.into_iter().collect()
}

pub fn any_query(rng: &mut Rng, t: &TableInfo) -> String {
    match rng.below(10) {
        0..=4 => supported(rng, t),
        5..=7 => unsupported_or_failing(rng, t),
        _ => {
            let base = supported(rng, t);
            mutate(rng, &base)
        }
    }
}
