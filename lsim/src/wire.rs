//! Turning model batches into what a client hands to the database: native `EventBuffer`s or
//! hand-built wire messages (the capnp schema is the contract of `/insert_bin` and of the WAL).

use crate::model::*;
use locustdb_serialization::api::AnyVal;
use locustdb_serialization::event_buffer::{ColumnBuffer, ColumnData, EventBuffer, TableBuffer};
use locustdb_serialization::wal_segment_capnp;
use std::collections::HashMap;

fn anyval(c: &Cell) -> AnyVal {
    match c {
        Cell::N => AnyVal::Null,
        Cell::I(i) => AnyVal::Int(*i),
        Cell::F(b) => AnyVal::Float(f64::from_bits(*b)),
        Cell::S(s) => AnyVal::Str(s.clone()),
    }
}

fn kinds(cells: &[Cell]) -> (usize, usize, usize, usize) {
    let mut k = (0, 0, 0, 0);
    for c in cells {
        match c {
            Cell::N => k.0 += 1,
            Cell::I(_) => k.1 += 1,
            Cell::F(_) => k.2 += 1,
            Cell::S(_) => k.3 += 1,
        }
    }
    k
}

/// The representation actually used (requested one, or a fallback the content admits).
pub fn column_data_for(col: &ColBatch, allow_sparse: bool) -> ColumnData {
    let cells = &col.cells;
    let n = cells.len();
    let (nn, ni, nf, ns) = kinds(cells);
    let mixed = || ColumnData::Mixed(cells.iter().map(anyval).collect());
    match col.repr {
        Repr::Mixed => return mixed(),
        Repr::Sparse if allow_sparse && nn > 0 && ns == 0 && (ni == 0 || nf == 0) && (ni + nf) > 0 => {
            if ni > 0 {
                return ColumnData::SparseI64(
                    cells.iter().enumerate().filter_map(|(i, c)| if let Cell::I(v) = c { Some((i as u64, *v)) } else { None }).collect(),
                );
            } else {
                return ColumnData::Sparse(
                    cells.iter().enumerate().filter_map(|(i, c)| c.as_f64().map(|v| (i as u64, v))).collect(),
                );
            }
        }
        Repr::ShortDense if allow_sparse && nn > 0 && ns == 0 && (ni == 0 || nf == 0) && (ni + nf) > 0 => {
            let k = ni + nf;
            if cells[..k].iter().all(|c| !c.is_null()) {
                if ni > 0 {
                    return ColumnData::I64(cells[..k].iter().map(|c| if let Cell::I(v) = c { *v } else { 0 }).collect());
                } else {
                    return ColumnData::Dense(cells[..k].iter().map(|c| c.as_f64().unwrap()).collect());
                }
            }
        }
        _ => {}
    }
    // Typed (or fallback)
    if nn == n {
        ColumnData::Empty
    } else if ni == n {
        ColumnData::I64(cells.iter().map(|c| if let Cell::I(v) = c { *v } else { 0 }).collect())
    } else if nf == n {
        ColumnData::Dense(cells.iter().map(|c| c.as_f64().unwrap()).collect())
    } else if ns == n {
        ColumnData::String(cells.iter().map(|c| if let Cell::S(s) = c { s.clone() } else { String::new() }).collect())
    } else if allow_sparse && nn > 0 && ns == 0 && (ni == 0 || nf == 0) {
        // typed nullable numbers travel as sparse columns on the wire
        if ni > 0 {
            ColumnData::SparseI64(cells.iter().enumerate().filter_map(|(i, c)| if let Cell::I(v) = c { Some((i as u64, *v)) } else { None }).collect())
        } else {
            ColumnData::Sparse(cells.iter().enumerate().filter_map(|(i, c)| c.as_f64().map(|v| (i as u64, v))).collect())
        }
    } else {
        mixed()
    }
}

pub fn repr_name(d: &ColumnData) -> &'static str {
    match d {
        ColumnData::Empty => "Empty",
        ColumnData::Dense(_) => "Dense",
        ColumnData::Sparse(_) => "Sparse",
        ColumnData::I64(_) => "I64",
        ColumnData::SparseI64(_) => "SparseI64",
        ColumnData::String(_) => "String",
        ColumnData::Mixed(_) => "Mixed",
    }
}

/// Native path: `TableBuffer::new` (all columns full length or Empty).
pub fn native_event_buffer(req: &Request) -> EventBuffer {
    let mut tables = HashMap::new();
    for tb in &req.tables {
        let mut cols = HashMap::new();
        for c in &tb.cols {
            cols.insert(c.name.clone(), ColumnBuffer { data: column_data_for(c, false) });
        }
        // a batch whose columns are all Empty would have length 0: the generator guarantees at
        // least one non-null column per batch
        tables.insert(tb.table.clone(), TableBuffer::new(cols));
    }
    EventBuffer { tables }
}

/// Wire path: the message a client may send, with the row count spelled out.
pub fn wire_bytes(req: &Request) -> Vec<u8> {
    let mut builder = capnp::message::Builder::new_default();
    {
        let list = builder.init_root::<wal_segment_capnp::table_segment_list::Builder>();
        let mut data = list.init_data(req.tables.len() as u32);
        for (i, tb) in req.tables.iter().enumerate() {
            let mut t = data.reborrow().get(i as u32);
            t.set_len(tb.rows as u64);
            t.set_name(&tb.table);
            let mut columns = t.reborrow().init_columns(tb.cols.len() as u32);
            for (j, c) in tb.cols.iter().enumerate() {
                let mut cb = columns.reborrow().get(j as u32);
                cb.set_name(&c.name);
                match column_data_for(c, true) {
                    ColumnData::Dense(v) => cb.get_data().set_f64(&v[..]).unwrap(),
                    ColumnData::I64(v) => cb.get_data().set_i64(&v[..]).unwrap(),
                    ColumnData::String(v) => cb.get_data().set_string(&v[..]).unwrap(),
                    ColumnData::Empty => cb.get_data().set_empty(()),
                    ColumnData::Sparse(sp) => {
                        let mut b = cb.get_data().init_sparse_f64();
                        let (ix, vs): (Vec<u64>, Vec<f64>) = sp.into_iter().unzip();
                        b.reborrow().set_indices(&ix[..]).unwrap();
                        b.reborrow().set_values(&vs[..]).unwrap();
                    }
                    ColumnData::SparseI64(sp) => {
                        let mut b = cb.get_data().init_sparse_i64();
                        let (ix, vs): (Vec<u64>, Vec<i64>) = sp.into_iter().unzip();
                        b.reborrow().set_indices(&ix[..]).unwrap();
                        b.reborrow().set_values(&vs[..]).unwrap();
                    }
                    ColumnData::Mixed(m) => {
                        let mut mb = cb.get_data().init_mixed(m.len() as u32);
                        for (k, v) in m.iter().enumerate() {
                            let mut vb = mb.reborrow().get(k as u32).init_value();
                            match v {
                                AnyVal::Int(i) => vb.set_i64(*i),
                                AnyVal::Float(f) => vb.set_f64(*f),
                                AnyVal::Str(s) => vb.set_string(s),
                                AnyVal::Null => vb.set_null(()),
                            }
                        }
                    }
                }
            }
        }
    }
    let mut buf = Vec::new();
    capnp::serialize_packed::write_message(&mut buf, &builder).unwrap();
    buf
}

/// The event buffer the database receives for a request on a given path.
pub fn event_buffer_for(req: &Request) -> EventBuffer {
    match req.path {
        IngestPath::Native => native_event_buffer(req),
        IngestPath::NativeWire => {
            let b = native_event_buffer(req).serialize();
            EventBuffer::deserialize(&b).expect("own wire bytes decode")
        }
        IngestPath::Wire | IngestPath::Http => EventBuffer::deserialize(&wire_bytes(req)).expect("own wire bytes decode"),
    }
}
