#!/bin/bash
# Build the simulator offline from files on disk only.
set -euo pipefail
cd "$(dirname "$0")"
export CARGO_NET_OFFLINE=true
mkdir -p target evidence replays
python3 tools/gen_shadow.py
cargo build -p lsim 2>&1 | tail -3
./target/debug/lsim selftest-determinism --runs 40
