fn main() {
    println!("cargo:rustc-cfg=locustdb_verif");
    println!("cargo:rustc-check-cfg=cfg(locustdb_verif)");
    println!("cargo:rerun-if-changed=build.rs");
}
