//! Scheduler glue, per-run context, event log, sync points.

use shuttle_engine::runtime::execution::ExecutionState;
use shuttle_engine::runtime::task::TaskId;
use std::collections::BTreeMap;
use std::sync::atomic::{AtomicBool, AtomicU64, AtomicUsize, Ordering};
use std::sync::Mutex as StdMutex;

// ---------------------------------------------------------------------------------------------
// execution-over flag and scheduling points
// ---------------------------------------------------------------------------------------------

/// Set by the harness as its last simulated action. Objects still owned by detached coroutines are
/// destroyed after the execution has ended; their destructors must not call into the scheduler.
static EXEC_OVER: AtomicBool = AtomicBool::new(true);
/// Task id of the timer coroutine (usize::MAX: none). Read by the harness scheduler.
pub static TIMER_TASK: AtomicUsize = AtomicUsize::new(usize::MAX);
/// Number of scheduling points passed in this execution.
pub static SCHED_POINTS: AtomicU64 = AtomicU64::new(0);
/// Task id of a harness thread polling for a database instance to become quiescent (usize::MAX: none).
pub static QUIESCE_POLLER: AtomicUsize = AtomicUsize::new(usize::MAX);
/// Set by the scheduler when the poller is the only thread that can still make progress and no
/// timer is pending: whatever is left of the instance is blocked for good.
pub static QUIESCE_INERT: AtomicBool = AtomicBool::new(false);

pub fn set_exec_over(v: bool) {
    EXEC_OVER.store(v, Ordering::SeqCst);
}
pub fn exec_over() -> bool {
    EXEC_OVER.load(Ordering::SeqCst)
}

/// True when the scheduler must not be entered: after the execution ended, or while the current
/// OS thread is unwinding a panic (a yield there would leave `panicking()` set for other coroutines).
#[inline]
pub fn quiet() -> bool {
    exec_over() || std::thread::panicking()
}

/// A preemption point: the scheduler may switch to any runnable coroutine here.
#[inline]
pub fn sched() {
    if quiet() {
        return;
    }
    SCHED_POINTS.fetch_add(1, Ordering::Relaxed);
    shuttle_engine::runtime::thread::switch();
}

/// Explicit yield (tells priority schedulers to deprioritise the caller).
pub fn yield_now() {
    if quiet() {
        return;
    }
    SCHED_POINTS.fetch_add(1, Ordering::Relaxed);
    shuttle_engine::thread_support::yield_now();
}

pub fn me() -> usize {
    if exec_over() {
        return usize::MAX;
    }
    ExecutionState::try_with(|s| s.try_current().map(|t| usize::from(t.id())))
        .ok()
        .flatten()
        .unwrap_or(usize::MAX)
}

/// Block the current coroutine until some other coroutine calls `unpark(me)`.
/// Callers always re-check their condition in a loop (wake-ups may be spurious).
pub fn park() {
    park_on("?")
}

/// What each blocked coroutine is waiting for (diagnostics for hang reports).
pub static WAIT_REASONS: StdMutex<Vec<(usize, &'static str)>> = StdMutex::new(Vec::new());

pub fn wait_reasons() -> Vec<(usize, &'static str)> {
    WAIT_REASONS.lock().unwrap().clone()
}

pub fn park_on(reason: &'static str) {
    if exec_over() {
        return;
    }
    let me_ = me();
    {
        let mut w = WAIT_REASONS.lock().unwrap();
        w.retain(|x| x.0 != me_);
        w.push((me_, reason));
    }
    park_inner();
    WAIT_REASONS.lock().unwrap().retain(|x| x.0 != me_);
}

fn park_inner() {
    // (While unwinding a panic this still blocks: a destructor that has to wait for a lock held by
    // another coroutine cannot do anything else. No such destructor exists in the database; the
    // engine tolerates a switch in mid-unwind.)
    ExecutionState::with(|s| s.current_mut().block(false));
    SCHED_POINTS.fetch_add(1, Ordering::Relaxed);
    shuttle_engine::runtime::thread::switch();
}

pub fn unpark(tid: usize) {
    if exec_over() || tid == usize::MAX {
        return;
    }
    let _ = ExecutionState::try_with(|s| {
        if let Some(t) = s.try_get(TaskId::from(tid)) {
            if !t.finished() && t.blocked() {
                s.get_mut(TaskId::from(tid)).unblock();
            }
        }
    });
}

pub fn current_waker() -> std::task::Waker {
    ExecutionState::with(|s| s.current().waker())
}

pub fn sleep_unless_woken() {
    if quiet() {
        return;
    }
    ExecutionState::with(|s| s.current_mut().sleep_unless_woken());
    SCHED_POINTS.fetch_add(1, Ordering::Relaxed);
    shuttle_engine::runtime::thread::switch();
}

/// True while the engine tears an execution down (unfinished coroutines are force-unwound then).
pub fn in_cleanup() -> bool {
    if exec_over() {
        return true;
    }
    match ExecutionState::try_with(|s| s.in_cleanup() || s.is_finished()) {
        Ok(b) => b,
        Err(_) => true,
    }
}

/// Engine-level state of every coroutine (diagnostics).
pub fn dump_tasks() -> Vec<(usize, String)> {
    let mut out = Vec::new();
    let _ = ExecutionState::try_with(|s| {
        let mut i = 0;
        while let Some(t) = s.try_get(TaskId::from(i)) {
            let st = if t.finished() {
                "finished"
            } else if t.blocked() {
                "blocked"
            } else if t.sleeping() {
                "sleeping"
            } else if t.runnable() {
                "runnable"
            } else {
                "?"
            };
            out.push((i, st.to_string()));
            i += 1;
        }
    });
    out
}

pub fn detach_current() {
    ExecutionState::with(|s| s.current_mut().detach());
}

pub fn schedule_len() -> usize {
    shuttle_engine::runtime::execution::CurrentSchedule::len()
}

// ---------------------------------------------------------------------------------------------
// small PRNG (xoshiro256**), used for every seeded choice made inside the facade
// ---------------------------------------------------------------------------------------------

#[derive(Clone, Debug)]
pub struct Rng {
    s: [u64; 4],
}

impl Rng {
    pub fn new(seed: u64) -> Rng {
        // splitmix64 expansion
        let mut x = seed;
        let mut s = [0u64; 4];
        for v in s.iter_mut() {
            x = x.wrapping_add(0x9E3779B97F4A7C15);
            let mut z = x;
            z = (z ^ (z >> 30)).wrapping_mul(0xBF58476D1CE4E5B9);
            z = (z ^ (z >> 27)).wrapping_mul(0x94D049BB133111EB);
            *v = z ^ (z >> 31);
        }
        Rng { s }
    }
    pub fn next_u64(&mut self) -> u64 {
        let result = self.s[1].wrapping_mul(5).rotate_left(7).wrapping_mul(9);
        let t = self.s[1] << 17;
        self.s[2] ^= self.s[0];
        self.s[3] ^= self.s[1];
        self.s[1] ^= self.s[2];
        self.s[0] ^= self.s[3];
        self.s[2] ^= t;
        self.s[3] = self.s[3].rotate_left(45);
        result
    }
    /// uniform in 0..n (n > 0)
    pub fn below(&mut self, n: u64) -> u64 {
        debug_assert!(n > 0);
        self.next_u64() % n
    }
    pub fn range(&mut self, lo: i64, hi_incl: i64) -> i64 {
        lo + self.below((hi_incl - lo + 1) as u64) as i64
    }
    pub fn chance(&mut self, num: u64, den: u64) -> bool {
        self.below(den) < num
    }
    pub fn pick<'a, T>(&mut self, xs: &'a [T]) -> &'a T {
        &xs[self.below(xs.len() as u64) as usize]
    }
    pub fn shuffle<T>(&mut self, xs: &mut [T]) {
        for i in (1..xs.len()).rev() {
            let j = self.below(i as u64 + 1) as usize;
            xs.swap(i, j);
        }
    }
    pub fn fork(&mut self) -> Rng {
        Rng::new(self.next_u64())
    }
}

// ---------------------------------------------------------------------------------------------
// per-run context
// ---------------------------------------------------------------------------------------------

#[derive(Clone, Debug)]
pub struct Event {
    pub seq: u64,
    pub task: usize,
    pub t_ns: u64,
    pub kind: &'static str,
    pub detail: String,
}

#[derive(Clone, Debug)]
pub struct PanicRec {
    pub seq: u64,
    pub task: usize,
    pub role: String,
    pub message: String,
    pub location: String,
    /// caught by the database's own catch_unwind (the thread lives on)
    pub contained: bool,
}

/// "When a thread reaches sync point `label` for the `nth` time, arm trigger `trigger` and let the
/// reaching thread yield up to `yields` times while the triggered operation has not finished."
#[derive(Clone, Debug)]
pub struct Placement {
    pub label: String,
    pub nth: u64,
    pub trigger: usize,
    pub yields: u32,
}

#[derive(Clone, Debug, Default)]
pub struct Trigger {
    pub armed: bool,
    pub done: bool,
    pub waiter: Option<usize>,
    pub armed_by_label: bool,
}

pub struct Ctx {
    pub events: Vec<Event>,
    pub log_enabled: bool,
    pub rng: Rng,
    pub panics: Vec<PanicRec>,
    pub roles: BTreeMap<usize, String>,
    pub live_db_threads: usize,
    /// thread group (= database instance) of every coroutine; children inherit the spawner's
    pub groups: BTreeMap<usize, u32>,
    pub live_by_group: BTreeMap<u32, usize>,
    pub spawned_db_threads: u64,
    pub quiesce_waiters: Vec<usize>,
    pub placements: Vec<Placement>,
    pub triggers: Vec<Trigger>,
    pub sp_counts: BTreeMap<&'static str, u64>,
    pub sp_hits: BTreeMap<String, u64>,
    pub probes: BTreeMap<&'static str, u64>,
    pub notes: Vec<(&'static str, Vec<u64>)>,
    pub last_panic: Option<(String, String)>,
    pub poison_seen: u64,
    /// panics the database caught itself: (message, location)
    pub contained_panics: Vec<(String, String)>,
}

impl Ctx {
    pub fn new(seed: u64) -> Ctx {
        Ctx {
            events: Vec::new(),
            log_enabled: true,
            rng: Rng::new(seed ^ 0x5151_F00D),
            panics: Vec::new(),
            roles: BTreeMap::new(),
            live_db_threads: 0,
            groups: BTreeMap::new(),
            live_by_group: BTreeMap::new(),
            spawned_db_threads: 0,
            quiesce_waiters: Vec::new(),
            placements: Vec::new(),
            triggers: Vec::new(),
            sp_counts: BTreeMap::new(),
            sp_hits: BTreeMap::new(),
            probes: BTreeMap::new(),
            notes: Vec::new(),
            last_panic: None,
            poison_seen: 0,
            contained_panics: Vec::new(),
        }
    }
}

static CTX: StdMutex<Option<Ctx>> = StdMutex::new(None);

/// Access the run context. The closure must not reach a scheduling point.
pub fn with_ctx<R>(f: impl FnOnce(&mut Ctx) -> R) -> R {
    let mut g = CTX.lock().unwrap_or_else(|e| e.into_inner());
    let c = g.as_mut().expect("simrt: no run context installed");
    f(c)
}

pub fn try_with_ctx<R>(f: impl FnOnce(&mut Ctx) -> R) -> Option<R> {
    let mut g = CTX.lock().unwrap_or_else(|e| e.into_inner());
    g.as_mut().map(f)
}

/// Install a fresh context for a run (called by the harness before the execution starts).
pub fn install_ctx(seed: u64) {
    *CTX.lock().unwrap_or_else(|e| e.into_inner()) = Some(Ctx::new(seed));
    crate::time::reset();
    crate::fs::reset_run_state(seed);
    TIMER_TASK.store(usize::MAX, Ordering::SeqCst);
    SCHED_POINTS.store(0, Ordering::SeqCst);
    QUIESCE_POLLER.store(usize::MAX, Ordering::SeqCst);
    QUIESCE_INERT.store(false, Ordering::SeqCst);
    WAIT_REASONS.lock().unwrap().clear();
}

pub fn take_ctx() -> Option<Ctx> {
    CTX.lock().unwrap_or_else(|e| e.into_inner()).take()
}

pub fn log(kind: &'static str, detail: impl FnOnce() -> String) -> u64 {
    let task = me();
    let t_ns = crate::time::now_ns();
    try_with_ctx(|c| {
        let seq = c.events.len() as u64;
        if c.log_enabled {
            c.events.push(Event { seq, task, t_ns, kind, detail: detail() });
        } else {
            c.events.push(Event { seq, task, t_ns, kind, detail: String::new() });
        }
        seq
    })
    .unwrap_or(0)
}

pub fn event_seq() -> u64 {
    try_with_ctx(|c| c.events.len() as u64).unwrap_or(0)
}

pub fn probe(name: &'static str) {
    let _ = try_with_ctx(|c| *c.probes.entry(name).or_insert(0) += 1);
}

pub fn probe_add(name: &'static str, n: u64) {
    let _ = try_with_ctx(|c| *c.probes.entry(name).or_insert(0) += n);
}

pub fn rng_below(n: u64) -> u64 {
    try_with_ctx(|c| c.rng.below(n)).unwrap_or(0)
}

/// A value-carrying observation from instrumented code (no scheduling effect).
pub fn note(label: &'static str, vals: &[u64]) {
    if exec_over() {
        return;
    }
    let _ = try_with_ctx(|c| {
        if c.notes.len() < 4096 {
            c.notes.push((label, vals.to_vec()));
        }
    });
}

/// Named step boundary inside the database. Always a scheduling point; if the run's plan has a
/// placement for (label, n-th visit) the associated trigger is armed and this thread yields a
/// bounded number of times so the triggered operation gets to run *here*. Only yields are added,
/// so every produced interleaving is one the real program admits.
pub fn sync_point(label: &'static str) {
    if quiet() {
        return;
    }
    let hit = try_with_ctx(|c| {
        let n = {
            let e = c.sp_counts.entry(label).or_insert(0);
            *e += 1;
            *e
        };
        let hit = c
            .placements
            .iter()
            .find(|p| p.label == label && p.nth == n)
            .cloned();
        if let Some(p) = &hit {
            *c.sp_hits.entry(p.label.clone()).or_insert(0) += 1;
        }
        hit
    })
    .flatten();
    log("sp", || label.to_string());
    match hit {
        Some(p) => {
            trigger_arm(p.trigger, true);
            for _ in 0..p.yields {
                if trigger_is_done(p.trigger) {
                    break;
                }
                yield_now();
            }
        }
        None => sched(),
    }
}

pub fn trigger_new() -> usize {
    with_ctx(|c| {
        c.triggers.push(Trigger::default());
        c.triggers.len() - 1
    })
}

pub fn trigger_arm(id: usize, by_label: bool) {
    let w = with_ctx(|c| {
        let t = &mut c.triggers[id];
        if t.armed {
            return None;
        }
        t.armed = true;
        t.armed_by_label = by_label;
        t.waiter.take()
    });
    if let Some(w) = w {
        unpark(w);
    }
}

pub fn trigger_is_done(id: usize) -> bool {
    with_ctx(|c| c.triggers[id].done)
}

pub fn trigger_done(id: usize) {
    with_ctx(|c| c.triggers[id].done = true);
}

/// Block until the trigger is armed. Returns whether it was armed by its sync point (true) or by
/// the harness' end-of-workload fallback (false).
pub fn trigger_wait(id: usize) -> bool {
    loop {
        sched();
        let (armed, by_label) = with_ctx(|c| {
            let me = me();
            let t = &mut c.triggers[id];
            if !t.armed {
                t.waiter = Some(me);
            }
            (t.armed, t.armed_by_label)
        });
        if armed {
            return by_label;
        }
        if quiet() {
            return false;
        }
        park();
    }
}

// ---------------------------------------------------------------------------------------------
// panic capture
// ---------------------------------------------------------------------------------------------

/// Replace the process panic hook by one that records message and location for the facade's
/// thread wrapper (and prints nothing). Call from inside the first execution, after shuttle
/// installed its own hook.
pub fn install_panic_hook() {
    if std::env::var_os("LSIM_DEFAULT_HOOK").is_some() {
        return;
    }
    std::panic::set_hook(Box::new(|info| {
        let msg = if let Some(s) = info.payload().downcast_ref::<&str>() {
            s.to_string()
        } else if let Some(s) = info.payload().downcast_ref::<String>() {
            s.clone()
        } else {
            "<non-string panic payload>".to_string()
        };
        // the database can format strings that are not UTF-8 into its panic messages
        let msg = String::from_utf8_lossy(msg.as_bytes()).into_owned();
        let loc = info
            .location()
            .map(|l| format!("{}:{}", l.file(), l.line()))
            .unwrap_or_else(|| "<unknown>".into());
        if std::env::var_os("LSIM_PRINT_PANICS").is_some() || exec_over() {
            // (a panic outside a simulated execution is a harness failure: always shown)
            eprintln!("[lsim] panic at {loc}: {msg}");
        }
        if let Ok(mut g) = CTX.try_lock() {
            if let Some(c) = g.as_mut() {
                c.last_panic = Some((msg, loc));
            }
        }
    }));
}

/// A thread that can never continue (it waits for a lock it holds itself): recorded next to the
/// panics, as what it is for the rest of the system — a thread that is gone while holding its locks.
pub fn record_stuck(task: usize, what: &str) {
    let _ = try_with_ctx(|c| {
        let role = c.roles.get(&task).cloned().unwrap_or_default();
        let seq = c.events.len() as u64;
        let location = what.rsplit('(').next().unwrap_or("").trim_end_matches(')').to_string();
        c.events.push(Event { seq, task, t_ns: crate::time::now_ns(), kind: "stuck", detail: format!("{role}: {}", truncate(what, 200)) });
        c.panics.push(PanicRec { seq, task, role, message: what.split(" (").next().unwrap_or(what).to_string(), location, contained: false });
    });
}

pub fn record_panic(task: usize, role: &str) {
    let _ = try_with_ctx(|c| {
        let (message, location) = c
            .last_panic
            .take()
            .unwrap_or_else(|| ("<unknown>".into(), "<unknown>".into()));
        let seq = c.events.len() as u64;
        c.events.push(Event {
            seq,
            task,
            t_ns: crate::time::now_ns(),
            kind: "panic",
            detail: format!("{role}: {location}: {}", truncate(&message, 160)),
        });
        c.panics.push(PanicRec { seq, task, role: role.to_string(), message, location, contained: false });
    });
}

pub fn truncate(s: &str, n: usize) -> String {
    if s.len() <= n {
        s.to_string()
    } else {
        let mut end = n;
        while !s.is_char_boundary(end) {
            end -= 1;
        }
        format!("{}…", &s[..end])
    }
}

/// FNV-1a over the event log: the replay-equality witness.
pub fn event_log_hash(events: &[Event]) -> u64 {
    let mut h: u64 = 0xcbf29ce484222325;
    let mut feed = |b: &[u8]| {
        for x in b {
            h ^= *x as u64;
            h = h.wrapping_mul(0x100000001b3);
        }
    };
    for e in events {
        feed(&e.seq.to_le_bytes());
        feed(&(e.task as u64).to_le_bytes());
        feed(&e.t_ns.to_le_bytes());
        feed(e.kind.as_bytes());
        feed(e.detail.as_bytes());
        feed(b"\n");
    }
    h
}
