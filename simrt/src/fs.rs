//! SimFs: the simulated disk underneath `FileBlobWriter`.
//!
//! An in-memory tree shared by everything in the process. Every mutating call is one numbered
//! *effect* (mkdir, create, write(chunk), fsync, rename, unlink) preceded by a scheduling point.
//! Per file the bytes visible to readers and the length known durable (set by fsync) are kept, so
//! that a crash image can drop or tear data that was never synced. Images of a root can be recorded
//! at every effect (copy-on-write: file contents are `Arc`s).

use crate::core::{self, sched, Rng};
use std::collections::{BTreeMap, BTreeSet};
use std::io;
use std::path::{Path, PathBuf};
use std::sync::Arc;
use std::sync::Mutex as StdMutex;

pub const NAME_MAX: usize = 255;
pub const PATH_MAX: usize = 4096;

#[derive(Clone, Debug)]
pub struct FileEntry {
    pub data: Arc<Vec<u8>>,
    /// length of the prefix known durable (fsync'ed)
    pub synced: usize,
}

/// A directory tree: path (as string) -> file; plus the set of directories.
#[derive(Clone, Debug, Default)]
pub struct Image {
    pub files: BTreeMap<String, FileEntry>,
    pub dirs: BTreeSet<String>,
}

#[derive(Clone, Debug)]
pub struct Effect {
    pub no: u64,
    pub task: usize,
    pub event_seq: u64,
    pub kind: &'static str,
    pub path: String,
    pub path2: String,
    pub len: usize,
}

#[derive(Default)]
pub struct FsState {
    pub tree: Image,
    pub effects: Vec<Effect>,
    /// root whose images are recorded after every effect (crash enumeration)
    pub record_root: Option<String>,
    /// (effect number after which the image was taken, image of the recorded root)
    pub images: Vec<(u64, Image)>,
    /// paths opened for reading (C18 read tracing), in order
    pub reads: Vec<String>,
    /// registered roots; any path outside all of them is a monitor violation
    pub roots: Vec<String>,
    pub monitor_violations: Vec<String>,
    pub rng: Option<Rng>,
    /// max number of chunks a write_all is split into
    pub max_chunks: u64,
    /// creator bookkeeping for the "distinct tables never share files" monitor: path -> tag
    pub creator_tag: BTreeMap<String, String>,
    pub enametoolong: u64,
}

static FS: StdMutex<Option<FsState>> = StdMutex::new(None);

fn with_fs<R>(f: impl FnOnce(&mut FsState) -> R) -> R {
    let mut g = FS.lock().unwrap_or_else(|e| e.into_inner());
    if g.is_none() {
        *g = Some(FsState { max_chunks: 3, ..Default::default() });
    }
    f(g.as_mut().unwrap())
}

/// Harness access to the whole state (never call from inside a `with_fs` closure).
pub fn with_state<R>(f: impl FnOnce(&mut FsState) -> R) -> R {
    with_fs(f)
}

pub fn reset_run_state(seed: u64) {
    let mut g = FS.lock().unwrap_or_else(|e| e.into_inner());
    *g = Some(FsState { max_chunks: 3, rng: Some(Rng::new(seed ^ 0xF5F5_0001)), ..Default::default() });
}

fn key(p: &Path) -> String {
    p.to_string_lossy().into_owned()
}

fn parent_of(k: &str) -> Option<String> {
    Path::new(k).parent().map(|p| p.to_string_lossy().into_owned())
}

fn check_path(st: &mut FsState, p: &Path) -> io::Result<()> {
    let k = key(p);
    if k.len() > PATH_MAX {
        st.enametoolong += 1;
        return Err(io::Error::from_raw_os_error(36));
    }
    let mut escaped = false;
    for c in p.components() {
        match c {
            std::path::Component::ParentDir => escaped = true,
            std::path::Component::Normal(s) => {
                if s.len() > NAME_MAX {
                    st.enametoolong += 1;
                    return Err(io::Error::from_raw_os_error(36));
                }
            }
            _ => {}
        }
    }
    if !st.roots.is_empty() && !st.roots.iter().any(|r| k == *r || k.starts_with(&format!("{r}/"))) {
        escaped = true;
    }
    if escaped {
        st.monitor_violations.push(format!("path outside database root: {k}"));
    }
    Ok(())
}

fn effect(kind: &'static str, path: &str, path2: &str, len: usize, apply: impl FnOnce(&mut FsState) -> io::Result<()>) -> io::Result<()> {
    sched();
    let task = core::me();
    let r = with_fs(|st| {
        let r = apply(st);
        if r.is_ok() {
            let no = st.effects.len() as u64 + 1;
            st.effects.push(Effect {
                no,
                task,
                event_seq: 0,
                kind,
                path: path.to_string(),
                path2: path2.to_string(),
                len,
            });
            if let Some(root) = st.record_root.clone() {
                let img = subtree(&st.tree, &root);
                st.images.push((no, img));
            }
        }
        r
    });
    if r.is_ok() {
        let seq = core::log("fs", || {
            if path2.is_empty() {
                format!("{kind} {path} {len}")
            } else {
                format!("{kind} {path} -> {path2}")
            }
        });
        with_fs(|st| {
            if let Some(e) = st.effects.last_mut() {
                e.event_seq = seq;
            }
        });
    }
    r
}

pub fn subtree(img: &Image, root: &str) -> Image {
    let pre = format!("{root}/");
    Image {
        files: img.files.iter().filter(|(k, _)| k.starts_with(&pre)).map(|(k, v)| (k.clone(), v.clone())).collect(),
        dirs: img.dirs.iter().filter(|k| **k == root || k.starts_with(&pre)).cloned().collect(),
    }
}

/// Re-root an image: every path under `from` is moved under `to`.
pub fn reroot(img: &Image, from: &str, to: &str) -> Image {
    let mv = |k: &String| format!("{to}{}", &k[from.len()..]);
    Image {
        files: img.files.iter().map(|(k, v)| (mv(k), v.clone())).collect(),
        dirs: img.dirs.iter().map(mv).collect(),
    }
}

/// Install an image into the live tree (harness operation, not an effect).
pub fn install(img: &Image) {
    with_fs(|st| {
        for (k, v) in &img.files {
            st.tree.files.insert(k.clone(), v.clone());
        }
        for d in &img.dirs {
            st.tree.dirs.insert(d.clone());
        }
    });
}

pub fn snapshot(root: &str) -> Image {
    with_fs(|st| subtree(&st.tree, root))
}

pub fn remove_root(root: &str) {
    with_fs(|st| {
        let pre = format!("{root}/");
        st.tree.files.retain(|k, _| !k.starts_with(&pre));
        st.tree.dirs.retain(|k| !(k == root || k.starts_with(&pre)));
    });
}

pub fn add_root(root: &str) {
    with_fs(|st| {
        if !st.roots.iter().any(|r| r == root) {
            st.roots.push(root.to_string());
        }
    });
}

pub fn effects_len() -> u64 {
    with_fs(|st| st.effects.len() as u64)
}

// ---- the API FileBlobWriter sees --------------------------------------------------------------

pub fn create_dir_all(p: &Path) -> io::Result<()> {
    let k = key(p);
    let missing = with_fs(|st| {
        check_path(st, p)?;
        Ok::<bool, io::Error>(!st.tree.dirs.contains(&k))
    })?;
    if !missing {
        sched();
        return Ok(());
    }
    effect("mkdir", &k, "", 0, |st| {
        let mut cur = Some(k.clone());
        while let Some(c) = cur {
            if c.is_empty() || c == "/" {
                break;
            }
            if st.tree.files.contains_key(&c) {
                return Err(io::Error::new(io::ErrorKind::AlreadyExists, "File exists (os error 17)"));
            }
            st.tree.dirs.insert(c.clone());
            cur = parent_of(&c);
        }
        Ok(())
    })
}

pub struct File {
    path: String,
    writable: bool,
    read_buf: Option<Arc<Vec<u8>>>,
    pos: usize,
}

impl File {
    pub fn create(p: &Path) -> io::Result<File> {
        let k = key(p);
        effect("create", &k, "", 0, |st| {
            check_path(st, p)?;
            match parent_of(&k) {
                Some(par) if st.tree.dirs.contains(&par) => {}
                _ => return Err(io::Error::new(io::ErrorKind::NotFound, "No such file or directory (os error 2)")),
            }
            if st.tree.dirs.contains(&k) {
                return Err(io::Error::from_raw_os_error(21));
            }
            st.tree.files.insert(k.clone(), FileEntry { data: Arc::new(Vec::new()), synced: 0 });
            Ok(())
        })?;
        Ok(File { path: k, writable: true, read_buf: None, pos: 0 })
    }

    pub fn open(p: &Path) -> io::Result<File> {
        sched();
        let k = key(p);
        let data = with_fs(|st| {
            check_path(st, p)?;
            st.reads.push(k.clone());
            match st.tree.files.get(&k) {
                Some(e) => Ok(e.data.clone()),
                None => Err(io::Error::new(io::ErrorKind::NotFound, "No such file or directory (os error 2)")),
            }
        })?;
        core::log("fs", || format!("open {k} {}", data.len()));
        Ok(File { path: k, writable: false, read_buf: Some(data), pos: 0 })
    }

    pub fn sync_all(&self) -> io::Result<()> {
        let k = self.path.clone();
        effect("fsync", &k, "", 0, |st| {
            if let Some(e) = st.tree.files.get_mut(&k) {
                e.synced = e.data.len();
            }
            Ok(())
        })
    }
}

impl io::Write for File {
    fn write(&mut self, buf: &[u8]) -> io::Result<usize> {
        self.write_all(buf)?;
        Ok(buf.len())
    }
    fn write_all(&mut self, buf: &[u8]) -> io::Result<()> {
        assert!(self.writable);
        if std::env::var_os("LSIM_DUMP_WRITES").is_some() {
            eprintln!("[lsim] write_all {} bytes: {}", buf.len(), buf.iter().map(|b| format!("{b:02x}")).collect::<String>());
        }
        // split into 1..=max_chunks chunk effects so that "partially written" exists as a state
        let cuts: Vec<usize> = with_fs(|st| {
            let maxc = st.max_chunks.max(1);
            let rng = st.rng.get_or_insert_with(|| Rng::new(1));
            let n = if buf.len() < 2 { 1 } else { 1 + rng.below(maxc) as usize };
            let mut cuts: Vec<usize> = (1..n).map(|_| 1 + rng.below(buf.len() as u64 - 1) as usize).collect();
            cuts.sort();
            cuts.dedup();
            cuts.push(buf.len());
            cuts
        });
        let mut start = 0;
        for end in cuts {
            let chunk = &buf[start..end];
            let k = self.path.clone();
            effect("write", &k, "", chunk.len(), |st| {
                match st.tree.files.get_mut(&k) {
                    Some(e) => {
                        Arc::make_mut(&mut e.data).extend_from_slice(chunk);
                        Ok(())
                    }
                    // the file was unlinked/renamed while open: data goes to the orphaned inode
                    None => Ok(()),
                }
            })?;
            start = end;
        }
        Ok(())
    }
    fn flush(&mut self) -> io::Result<()> {
        Ok(())
    }
}

impl io::Read for File {
    fn read(&mut self, out: &mut [u8]) -> io::Result<usize> {
        let b = self.read_buf.as_ref().expect("file not opened for reading");
        let n = out.len().min(b.len() - self.pos);
        out[..n].copy_from_slice(&b[self.pos..self.pos + n]);
        self.pos += n;
        Ok(n)
    }
}

pub fn rename(from: &Path, to: &Path) -> io::Result<()> {
    let a = key(from);
    let b = key(to);
    effect("rename", &a, &b, 0, |st| {
        check_path(st, from)?;
        check_path(st, to)?;
        match st.tree.files.remove(&a) {
            Some(e) => {
                st.tree.files.insert(b.clone(), e);
                Ok(())
            }
            None => Err(io::Error::new(io::ErrorKind::NotFound, "No such file or directory (os error 2)")),
        }
    })
}

pub fn remove_file(p: &Path) -> io::Result<()> {
    let k = key(p);
    effect("unlink", &k, "", 0, |st| {
        check_path(st, p)?;
        match st.tree.files.remove(&k) {
            Some(_) => Ok(()),
            None => Err(io::Error::new(io::ErrorKind::NotFound, "No such file or directory (os error 2)")),
        }
    })
}

pub fn exists(p: &Path) -> bool {
    sched();
    let k = key(p);
    with_fs(|st| {
        let _ = check_path(st, p);
        st.tree.files.contains_key(&k) || st.tree.dirs.contains(&k)
    })
}

/// Directory listing in a seeded order, as (path, is_file).
pub fn read_dir(p: &Path) -> io::Result<std::vec::IntoIter<io::Result<(PathBuf, bool)>>> {
    sched();
    let k = key(p);
    with_fs(|st| {
        check_path(st, p)?;
        if !st.tree.dirs.contains(&k) {
            return Err(io::Error::new(io::ErrorKind::NotFound, "No such file or directory (os error 2)"));
        }
        let mut out: Vec<(PathBuf, bool)> = Vec::new();
        for f in st.tree.files.keys() {
            if parent_of(f).as_deref() == Some(k.as_str()) {
                out.push((PathBuf::from(f), true));
            }
        }
        for d in st.tree.dirs.iter() {
            if parent_of(d).as_deref() == Some(k.as_str()) {
                out.push((PathBuf::from(d), false));
            }
        }
        let rng = st.rng.get_or_insert_with(|| Rng::new(1));
        rng.shuffle(&mut out);
        Ok(out.into_iter().map(Ok).collect::<Vec<_>>().into_iter())
    })
}

// ---- harness helpers ---------------------------------------------------------------------------

pub fn list_all(root: &str) -> Vec<(String, usize)> {
    with_fs(|st| {
        let pre = format!("{root}/");
        st.tree.files.iter().filter(|(k, _)| k.starts_with(&pre)).map(|(k, v)| (k.clone(), v.data.len())).collect()
    })
}

pub fn read_file(path: &str) -> Option<Vec<u8>> {
    with_fs(|st| st.tree.files.get(path).map(|e| e.data.as_ref().clone()))
}

pub fn put_file(path: &str, data: Vec<u8>) {
    with_fs(|st| {
        let n = data.len();
        st.tree.files.insert(path.to_string(), FileEntry { data: Arc::new(data), synced: n });
    });
}

pub fn delete_file(path: &str) {
    with_fs(|st| {
        st.tree.files.remove(path);
    });
}

/// Apply the durability rule to an image: for every file whose tail was never fsynced keep a
/// seeded prefix of that tail (possibly nothing, possibly all of it). Returns how many files were
/// cut and by how many bytes in total.
pub fn apply_crash_rule(img: &mut Image, rng: &mut Rng) -> (u64, u64) {
    let mut files = 0;
    let mut bytes = 0;
    for (_k, e) in img.files.iter_mut() {
        if e.synced < e.data.len() {
            let tail = e.data.len() - e.synced;
            let keep = match rng.below(4) {
                0 => 0,
                1 => tail,
                _ => rng.below(tail as u64 + 1) as usize,
            };
            if keep < tail {
                let mut d = e.data.as_ref().clone();
                d.truncate(e.synced + keep);
                files += 1;
                bytes += (tail - keep) as u64;
                e.data = Arc::new(d);
            }
            e.synced = e.data.len();
        }
    }
    (files, bytes)
}
