//! locustdb-simrt: the runtime facade LocustDB is compiled against under `--cfg locustdb_verif`.
//!
//! Every source of nondeterminism the database touches resolves to this crate instead of std:
//! threads, locks, condition variables, channels, atomics, thread pools, semaphores, clocks,
//! sleeps/timeouts and the file system. All of it runs as coroutines on ONE OS thread under the
//! shuttle-engine scheduler core; which coroutine runs next is decided by the harness' seeded
//! scheduler at every visible operation (`core::sched`).
//!
//! The synchronisation primitives are written here (not taken from shuttle-std) for three reasons
//! established in the design phase:
//!  * a panic must behave as in std (the thread dies, held locks are poisoned and released,
//!    everything else keeps running) without ever yielding to another coroutine in the middle of
//!    unwinding — `std::thread::panicking()` is per OS thread and all coroutines share one;
//!  * std's RwLock admits recursive reads unless a writer is queued; shuttle's rejects them;
//!  * timeouts and sleeps must follow a simulated clock.
#![allow(clippy::new_without_default, clippy::type_complexity, clippy::mutex_atomic)]

pub mod core;
pub mod fs;
pub mod pool;
pub mod sync;
pub mod thread;
pub mod time;

pub use crate::core::{note, sync_point};
pub use pool::{Semaphore, ThreadPool};

use std::future::Future;
use std::task::{Context, Poll};

/// `futures::executor::block_on` replacement: polls on the current simulated thread and puts it
/// to sleep (in the scheduler) until the future's waker is invoked.
pub fn block_on<F: Future>(fut: F) -> F::Output {
    let mut fut = std::pin::pin!(fut);
    let waker = core::current_waker();
    let mut cx = Context::from_waker(&waker);
    loop {
        core::sched();
        match fut.as_mut().poll(&mut cx) {
            Poll::Ready(v) => return v,
            Poll::Pending => core::sleep_unless_woken(),
        }
    }
}

/// `std::panic::catch_unwind` as seen by the database under the simulator: a panic caught by the
/// database's own code is noted (it is not a thread death), and the forced unwind with which the
/// engine tears down unfinished coroutines at the end of an execution passes through.
pub fn catch_unwind<F: FnOnce() -> R + std::panic::UnwindSafe, R>(f: F) -> std::thread::Result<R> {
    match std::panic::catch_unwind(f) {
        Err(p) if core::in_cleanup() => std::panic::resume_unwind(p),
        Err(p) => {
            core::probe("panic_caught_by_database");
            let me = core::me();
            let _ = core::try_with_ctx(|c| {
                if let Some((m, l)) = c.last_panic.take() {
                    let seq = c.events.len() as u64;
                    let role = c.roles.get(&me).cloned().unwrap_or_default();
                    if c.panics.len() < 256 {
                        c.panics.push(core::PanicRec { seq, task: me, role, message: m, location: l, contained: true });
                    }
                }
            });
            Err(p)
        }
        ok => ok,
    }
}
