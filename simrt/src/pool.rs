//! threadpool::ThreadPool and std_semaphore::Semaphore look-alikes.

use crate::sync::{mpsc, Arc, Condvar, Mutex};
use std::panic::Location;

type Job = Box<dyn FnOnce() + Send + 'static>;

/// Fixed-size pool. Like the real crate a panicking job does not shrink the pool (there a sentinel
/// respawns the worker; here the worker catches the panic, records it and carries on). Workers
/// exit when the pool is dropped.
pub struct ThreadPool {
    tx: Mutex<Option<mpsc::Sender<Job>>>,
}

impl ThreadPool {
    #[track_caller]
    pub fn new(n: usize) -> ThreadPool {
        assert!(n >= 1, "ThreadPool::new: num_threads must be >= 1");
        let loc = Location::caller();
        let file = loc.file().rsplit('/').next().unwrap_or("?");
        let role = format!("pool:{}:{}", file, loc.line());
        let (tx, rx) = mpsc::channel::<Job>();
        let rx = Arc::new(Mutex::new(rx));
        for _ in 0..n {
            let rx = rx.clone();
            let role2 = role.clone();
            crate::thread::spawn_pool_worker(role.clone(), move || loop {
                let job = {
                    let g = rx.lock().unwrap_or_else(|e| e.into_inner());
                    g.recv()
                };
                match job {
                    Ok(j) => {
                        let r = std::panic::catch_unwind(std::panic::AssertUnwindSafe(j));
                        if let Err(p) = r {
                            if crate::core::in_cleanup() {
                                std::panic::resume_unwind(p);
                            }
                            crate::core::record_panic(crate::core::me(), &role2);
                            crate::core::probe("pool_job_panicked");
                        }
                    }
                    Err(_) => break,
                }
            });
        }
        ThreadPool { tx: Mutex::new(Some(tx)) }
    }

    pub fn execute<F: FnOnce() + Send + 'static>(&self, f: F) {
        let g = self.tx.lock().unwrap_or_else(|e| e.into_inner());
        g.as_ref().unwrap().send(Box::new(f)).expect("ThreadPool::execute: workers are gone");
    }
}

pub struct Semaphore {
    m: Mutex<isize>,
    c: Condvar,
}
pub struct SemaphoreGuard<'a>(&'a Semaphore);

impl Semaphore {
    pub fn new(n: isize) -> Semaphore {
        Semaphore { m: Mutex::new(n), c: Condvar::new() }
    }
    pub fn acquire(&self) {
        let mut g = self.m.lock().unwrap_or_else(|e| e.into_inner());
        while *g <= 0 {
            g = self.c.wait(g).unwrap_or_else(|e| e.into_inner());
        }
        *g -= 1;
    }
    pub fn release(&self) {
        *self.m.lock().unwrap_or_else(|e| e.into_inner()) += 1;
        self.c.notify_one();
    }
    pub fn access(&self) -> SemaphoreGuard<'_> {
        self.acquire();
        SemaphoreGuard(self)
    }
}
impl Drop for SemaphoreGuard<'_> {
    fn drop(&mut self) {
        self.0.release();
    }
}
