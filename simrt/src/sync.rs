//! std::sync look-alikes driven by the simulator's scheduler.

use crate::core::{self, park, sched, unpark};
use std::cell::UnsafeCell;
use std::collections::VecDeque;
use std::fmt;
use std::ops::{Deref, DerefMut};
pub use std::sync::{Arc, LockResult, PoisonError, TryLockError, TryLockResult, Weak};
use std::time::Duration;

// All simulated threads are coroutines on one OS thread; interior state is only touched between
// scheduling points, so plain cells are enough.
struct Cell0<T>(UnsafeCell<T>);
impl<T> Cell0<T> {
    const fn new(t: T) -> Self {
        Cell0(UnsafeCell::new(t))
    }
    #[allow(clippy::mut_from_ref)]
    fn get(&self) -> &mut T {
        unsafe { &mut *self.0.get() }
    }
}

fn note_poison() {
    let _ = core::try_with_ctx(|c| c.poison_seen += 1);
}

// ---------------------------------------------------------------------------------------------
// Mutex
// ---------------------------------------------------------------------------------------------

struct MState {
    locked: bool,
    owner: usize,
    waiters: Vec<usize>,
    poisoned: bool,
}

pub struct Mutex<T: ?Sized> {
    st: Cell0<MState>,
    data: UnsafeCell<T>,
}

unsafe impl<T: ?Sized + Send> Send for Mutex<T> {}
unsafe impl<T: ?Sized + Send> Sync for Mutex<T> {}
impl<T: ?Sized> std::panic::UnwindSafe for Mutex<T> {}
impl<T: ?Sized> std::panic::RefUnwindSafe for Mutex<T> {}

pub struct MutexGuard<'a, T: ?Sized> {
    m: &'a Mutex<T>,
}

impl<T> Mutex<T> {
    pub const fn new(t: T) -> Mutex<T> {
        Mutex {
            st: Cell0::new(MState { locked: false, owner: usize::MAX, waiters: Vec::new(), poisoned: false }),
            data: UnsafeCell::new(t),
        }
    }
    pub fn into_inner(self) -> LockResult<T> {
        let p = self.st.get().poisoned;
        let v = self.data.into_inner();
        if p {
            Err(PoisonError::new(v))
        } else {
            Ok(v)
        }
    }
}

impl<T: ?Sized> Mutex<T> {
    #[track_caller]
    fn acquire(&self) {
        sched();
        loop {
            let st = self.st.get();
            if !st.locked || core::exec_over() {
                st.locked = true;
                st.owner = core::me();
                return;
            }
            if st.owner == core::me() && st.owner != usize::MAX && !std::thread::panicking() {
                // std's Mutex deadlocks here (it may also panic, but the futex implementation the
                // database ships on does not): the thread is stuck for good, holding the lock. A
                // panic would be wrong — the database's worker loop catches panics and the
                // request would merely fail. Recorded like a dead thread, then parked forever.
                core::record_stuck(core::me(), &format!("self-deadlock: thread re-locks a Mutex it already holds ({})", std::panic::Location::caller()));
                loop {
                    core::park_on("mutex-self-deadlock");
                    if core::exec_over() {
                        break;
                    }
                }
            }
            let me = core::me();
            if !st.waiters.contains(&me) {
                st.waiters.push(me);
            }
            core::park_on("mutex");
        }
    }

    fn release(&self) {
        let st = self.st.get();
        if std::thread::panicking() {
            st.poisoned = true;
        }
        st.locked = false;
        st.owner = usize::MAX;
        for w in std::mem::take(&mut st.waiters) {
            unpark(w);
        }
    }

    #[track_caller]
    pub fn lock(&self) -> LockResult<MutexGuard<'_, T>> {
        self.acquire();
        let g = MutexGuard { m: self };
        if self.st.get().poisoned {
            note_poison();
            Err(PoisonError::new(g))
        } else {
            Ok(g)
        }
    }

    pub fn try_lock(&self) -> TryLockResult<MutexGuard<'_, T>> {
        sched();
        let st = self.st.get();
        if st.locked {
            return Err(TryLockError::WouldBlock);
        }
        st.locked = true;
        st.owner = core::me();
        let g = MutexGuard { m: self };
        if st.poisoned {
            Err(TryLockError::Poisoned(PoisonError::new(g)))
        } else {
            Ok(g)
        }
    }

    pub fn is_poisoned(&self) -> bool {
        self.st.get().poisoned
    }

    pub fn get_mut(&mut self) -> LockResult<&mut T> {
        let p = self.st.get().poisoned;
        let r = self.data.get_mut();
        if p {
            Err(PoisonError::new(r))
        } else {
            Ok(r)
        }
    }
}

impl<T: ?Sized> Drop for MutexGuard<'_, T> {
    fn drop(&mut self) {
        self.m.release();
    }
}
impl<T: ?Sized> Deref for MutexGuard<'_, T> {
    type Target = T;
    fn deref(&self) -> &T {
        unsafe { &*self.m.data.get() }
    }
}
impl<T: ?Sized> DerefMut for MutexGuard<'_, T> {
    fn deref_mut(&mut self) -> &mut T {
        unsafe { &mut *self.m.data.get() }
    }
}
impl<T: Default> Default for Mutex<T> {
    fn default() -> Self {
        Mutex::new(T::default())
    }
}
impl<T: ?Sized + fmt::Debug> fmt::Debug for Mutex<T> {
    fn fmt(&self, f: &mut fmt::Formatter<'_>) -> fmt::Result {
        if self.st.get().locked {
            write!(f, "Mutex {{ <locked> }}")
        } else {
            write!(f, "Mutex {{ data: {:?} }}", unsafe { &*self.data.get() })
        }
    }
}
impl<T: ?Sized + fmt::Debug> fmt::Debug for MutexGuard<'_, T> {
    fn fmt(&self, f: &mut fmt::Formatter<'_>) -> fmt::Result {
        (**self).fmt(f)
    }
}

// ---------------------------------------------------------------------------------------------
// Condvar
// ---------------------------------------------------------------------------------------------

#[derive(Default)]
struct CvState {
    waiters: Vec<(usize, u64)>, // (task, ticket)
    next_ticket: u64,
}

pub struct Condvar {
    st: Cell0<CvState>,
}
unsafe impl Send for Condvar {}
unsafe impl Sync for Condvar {}

#[derive(Debug, PartialEq, Eq, Copy, Clone)]
pub struct WaitTimeoutResult(bool);
impl WaitTimeoutResult {
    pub fn timed_out(&self) -> bool {
        self.0
    }
}

impl Condvar {
    pub const fn new() -> Condvar {
        Condvar { st: Cell0::new(CvState { waiters: Vec::new(), next_ticket: 0 }) }
    }

    /// One wait episode: releases the mutex, blocks until notified (or until `deadline`, in
    /// simulated ns), re-acquires the mutex. Returns true if the deadline passed without a notify.
    fn wait_once<T: ?Sized>(&self, m: &Mutex<T>, deadline: Option<u64>) -> bool {
        let me = core::me();
        let ticket = {
            let st = self.st.get();
            st.next_ticket += 1;
            let t = st.next_ticket;
            st.waiters.push((me, t));
            t
        };
        let timer = deadline.map(|d| crate::time::register_timer(d, me));
        m.release();
        let mut timed_out = false;
        loop {
            let still_waiting = self.st.get().waiters.iter().any(|w| w.1 == ticket);
            if !still_waiting {
                break;
            }
            if let Some(d) = deadline {
                if crate::time::now_ns() >= d {
                    timed_out = true;
                    self.st.get().waiters.retain(|w| w.1 != ticket);
                    break;
                }
            }
            if core::exec_over() {
                self.st.get().waiters.retain(|w| w.1 != ticket);
                break;
            }
            core::park_on("condvar");
        }
        if let Some(t) = timer {
            crate::time::cancel_timer(t);
        }
        m.acquire();
        timed_out
    }

    pub fn wait<'a, T: ?Sized>(&self, g: MutexGuard<'a, T>) -> LockResult<MutexGuard<'a, T>> {
        let m = g.m;
        std::mem::forget(g);
        self.wait_once(m, None);
        let g = MutexGuard { m };
        if m.st.get().poisoned {
            note_poison();
            Err(PoisonError::new(g))
        } else {
            Ok(g)
        }
    }

    pub fn wait_while<'a, T: ?Sized, F: FnMut(&mut T) -> bool>(
        &self,
        mut g: MutexGuard<'a, T>,
        mut cond: F,
    ) -> LockResult<MutexGuard<'a, T>> {
        while cond(&mut *g) {
            g = self.wait(g)?;
        }
        Ok(g)
    }

    pub fn wait_timeout<'a, T: ?Sized>(
        &self,
        g: MutexGuard<'a, T>,
        dur: Duration,
    ) -> LockResult<(MutexGuard<'a, T>, WaitTimeoutResult)> {
        let m = g.m;
        std::mem::forget(g);
        let deadline = crate::time::now_ns().saturating_add(dur.as_nanos() as u64);
        let to = self.wait_once(m, Some(deadline));
        let g = MutexGuard { m };
        if m.st.get().poisoned {
            note_poison();
            Err(PoisonError::new((g, WaitTimeoutResult(to))))
        } else {
            Ok((g, WaitTimeoutResult(to)))
        }
    }

    pub fn wait_timeout_while<'a, T: ?Sized, F: FnMut(&mut T) -> bool>(
        &self,
        mut g: MutexGuard<'a, T>,
        dur: Duration,
        mut cond: F,
    ) -> LockResult<(MutexGuard<'a, T>, WaitTimeoutResult)> {
        let deadline = crate::time::now_ns().saturating_add(dur.as_nanos() as u64);
        loop {
            if !cond(&mut *g) {
                return Ok((g, WaitTimeoutResult(false)));
            }
            if crate::time::now_ns() >= deadline {
                return Ok((g, WaitTimeoutResult(true)));
            }
            let m = g.m;
            std::mem::forget(g);
            self.wait_once(m, Some(deadline));
            g = MutexGuard { m };
            if m.st.get().poisoned {
                note_poison();
                return Err(PoisonError::new((g, WaitTimeoutResult(false))));
            }
        }
    }

    pub fn notify_one(&self) {
        sched();
        let st = self.st.get();
        if st.waiters.is_empty() {
            return;
        }
        // which waiter wakes is unspecified in std: seeded choice
        let i = if st.waiters.len() == 1 { 0 } else { core::rng_below(st.waiters.len() as u64) as usize };
        let (w, _) = st.waiters.remove(i);
        unpark(w);
    }

    pub fn notify_all(&self) {
        sched();
        let st = self.st.get();
        for (w, _) in std::mem::take(&mut st.waiters) {
            unpark(w);
        }
    }
}

impl Default for Condvar {
    fn default() -> Self {
        Condvar::new()
    }
}
impl fmt::Debug for Condvar {
    fn fmt(&self, f: &mut fmt::Formatter<'_>) -> fmt::Result {
        write!(f, "Condvar")
    }
}

// ---------------------------------------------------------------------------------------------
// RwLock — writer-preferring like std's futex implementation: a new reader waits while a writer
// holds the lock or is queued; a thread that already holds a read lock may therefore re-read only
// as long as no writer queued in between (then it is a real deadlock, in std too).
// ---------------------------------------------------------------------------------------------

struct RwState {
    readers: usize,
    writer: bool,
    writers_waiting: usize,
    waiters: Vec<usize>,
    poisoned: bool,
}

pub struct RwLock<T: ?Sized> {
    st: Cell0<RwState>,
    data: UnsafeCell<T>,
}
unsafe impl<T: ?Sized + Send> Send for RwLock<T> {}
unsafe impl<T: ?Sized + Send + Sync> Sync for RwLock<T> {}
impl<T: ?Sized> std::panic::UnwindSafe for RwLock<T> {}
impl<T: ?Sized> std::panic::RefUnwindSafe for RwLock<T> {}

pub struct RwLockReadGuard<'a, T: ?Sized> {
    l: &'a RwLock<T>,
}
pub struct RwLockWriteGuard<'a, T: ?Sized> {
    l: &'a RwLock<T>,
}

impl<T> RwLock<T> {
    pub const fn new(t: T) -> RwLock<T> {
        RwLock {
            st: Cell0::new(RwState { readers: 0, writer: false, writers_waiting: 0, waiters: Vec::new(), poisoned: false }),
            data: UnsafeCell::new(t),
        }
    }
}

impl<T: ?Sized> RwLock<T> {
    fn wake_all(&self) {
        for w in std::mem::take(&mut self.st.get().waiters) {
            unpark(w);
        }
    }
    fn enqueue(&self) {
        let me = core::me();
        let st = self.st.get();
        if !st.waiters.contains(&me) {
            st.waiters.push(me);
        }
    }

    pub fn read(&self) -> LockResult<RwLockReadGuard<'_, T>> {
        sched();
        loop {
            let st = self.st.get();
            if (!st.writer && st.writers_waiting == 0) || core::exec_over() {
                st.readers += 1;
                break;
            }
            self.enqueue();
            core::park_on("rwlock-read");
        }
        let g = RwLockReadGuard { l: self };
        if self.st.get().poisoned {
            note_poison();
            Err(PoisonError::new(g))
        } else {
            Ok(g)
        }
    }

    pub fn write(&self) -> LockResult<RwLockWriteGuard<'_, T>> {
        sched();
        let mut queued = false;
        loop {
            let st = self.st.get();
            if (!st.writer && st.readers == 0) || core::exec_over() {
                if queued {
                    st.writers_waiting -= 1;
                }
                st.writer = true;
                break;
            }
            if !queued {
                st.writers_waiting += 1;
                queued = true;
            }
            self.enqueue();
            core::park_on("rwlock-write");
        }
        let g = RwLockWriteGuard { l: self };
        if self.st.get().poisoned {
            note_poison();
            Err(PoisonError::new(g))
        } else {
            Ok(g)
        }
    }

    pub fn is_poisoned(&self) -> bool {
        self.st.get().poisoned
    }

    pub fn get_mut(&mut self) -> LockResult<&mut T> {
        Ok(self.data.get_mut())
    }
}

impl<T: ?Sized> Drop for RwLockReadGuard<'_, T> {
    fn drop(&mut self) {
        let st = self.l.st.get();
        st.readers -= 1;
        if st.readers == 0 {
            self.l.wake_all();
        }
    }
}
impl<T: ?Sized> Drop for RwLockWriteGuard<'_, T> {
    fn drop(&mut self) {
        let st = self.l.st.get();
        if std::thread::panicking() {
            st.poisoned = true;
        }
        st.writer = false;
        self.l.wake_all();
    }
}
impl<T: ?Sized> Deref for RwLockReadGuard<'_, T> {
    type Target = T;
    fn deref(&self) -> &T {
        unsafe { &*self.l.data.get() }
    }
}
impl<T: ?Sized> Deref for RwLockWriteGuard<'_, T> {
    type Target = T;
    fn deref(&self) -> &T {
        unsafe { &*self.l.data.get() }
    }
}
impl<T: ?Sized> DerefMut for RwLockWriteGuard<'_, T> {
    fn deref_mut(&mut self) -> &mut T {
        unsafe { &mut *self.l.data.get() }
    }
}
impl<T: Default> Default for RwLock<T> {
    fn default() -> Self {
        RwLock::new(T::default())
    }
}
impl<T: ?Sized + fmt::Debug> fmt::Debug for RwLock<T> {
    fn fmt(&self, f: &mut fmt::Formatter<'_>) -> fmt::Result {
        if self.st.get().writer {
            write!(f, "RwLock {{ <write-locked> }}")
        } else {
            write!(f, "RwLock {{ data: {:?} }}", unsafe { &*self.data.get() })
        }
    }
}

// ---------------------------------------------------------------------------------------------
// mpsc (unbounded channel)
// ---------------------------------------------------------------------------------------------

pub mod mpsc {
    use super::*;
    pub use std::sync::mpsc::{RecvError, SendError, TryRecvError};

    struct Chan<T> {
        q: VecDeque<T>,
        senders: usize,
        receiver_alive: bool,
        waiter: Option<usize>,
    }

    pub struct Sender<T> {
        c: Arc<Cell0<Chan<T>>>,
    }
    pub struct Receiver<T> {
        c: Arc<Cell0<Chan<T>>>,
    }
    unsafe impl<T: Send> Send for Sender<T> {}
    unsafe impl<T: Send> Sync for Sender<T> {}
    unsafe impl<T: Send> Send for Receiver<T> {}

    pub fn channel<T>() -> (Sender<T>, Receiver<T>) {
        let c = Arc::new(Cell0::new(Chan { q: VecDeque::new(), senders: 1, receiver_alive: true, waiter: None }));
        (Sender { c: c.clone() }, Receiver { c })
    }

    impl<T> Sender<T> {
        pub fn send(&self, t: T) -> Result<(), SendError<T>> {
            sched();
            let c = self.c.get();
            if !c.receiver_alive {
                return Err(SendError(t));
            }
            c.q.push_back(t);
            if let Some(w) = c.waiter.take() {
                unpark(w);
            }
            Ok(())
        }
    }
    impl<T> Clone for Sender<T> {
        fn clone(&self) -> Self {
            self.c.get().senders += 1;
            Sender { c: self.c.clone() }
        }
    }
    impl<T> Drop for Sender<T> {
        fn drop(&mut self) {
            let c = self.c.get();
            c.senders -= 1;
            if c.senders == 0 {
                if let Some(w) = c.waiter.take() {
                    unpark(w);
                }
            }
        }
    }
    impl<T> Receiver<T> {
        pub fn recv(&self) -> Result<T, RecvError> {
            sched();
            loop {
                let c = self.c.get();
                if let Some(v) = c.q.pop_front() {
                    return Ok(v);
                }
                if c.senders == 0 || core::exec_over() {
                    return Err(RecvError);
                }
                c.waiter = Some(core::me());
                core::park_on("mpsc-recv");
            }
        }
        pub fn try_recv(&self) -> Result<T, TryRecvError> {
            sched();
            let c = self.c.get();
            match c.q.pop_front() {
                Some(v) => Ok(v),
                None if c.senders == 0 => Err(TryRecvError::Disconnected),
                None => Err(TryRecvError::Empty),
            }
        }
        /// Receive with a timeout on the simulated clock. None = timed out.
        pub fn recv_timeout_sim(&self, dur: Duration) -> Option<Result<T, RecvError>> {
            sched();
            let deadline = crate::time::now_ns().saturating_add(dur.as_nanos() as u64);
            let me = core::me();
            let timer = crate::time::register_timer(deadline, me);
            let r = loop {
                let c = self.c.get();
                if let Some(v) = c.q.pop_front() {
                    break Some(Ok(v));
                }
                if c.senders == 0 || core::exec_over() {
                    break Some(Err(RecvError));
                }
                if crate::time::now_ns() >= deadline {
                    break None;
                }
                c.waiter = Some(me);
                park();
            };
            crate::time::cancel_timer(timer);
            r
        }
        pub fn iter(&self) -> Iter<'_, T> {
            Iter { rx: self }
        }
    }
    impl<T> Drop for Receiver<T> {
        fn drop(&mut self) {
            self.c.get().receiver_alive = false;
        }
    }
    pub struct Iter<'a, T> {
        rx: &'a Receiver<T>,
    }
    impl<T> Iterator for Iter<'_, T> {
        type Item = T;
        fn next(&mut self) -> Option<T> {
            self.rx.recv().ok()
        }
    }
    impl<T> fmt::Debug for Sender<T> {
        fn fmt(&self, f: &mut fmt::Formatter<'_>) -> fmt::Result {
            write!(f, "Sender")
        }
    }
    impl<T> fmt::Debug for Receiver<T> {
        fn fmt(&self, f: &mut fmt::Formatter<'_>) -> fmt::Result {
            write!(f, "Receiver")
        }
    }
}

// ---------------------------------------------------------------------------------------------
// atomics: std atomics with a scheduling point in front of every operation
// ---------------------------------------------------------------------------------------------

pub mod atomic {
    use crate::core::sched;
    pub use std::sync::atomic::Ordering;

    macro_rules! int_atomic {
        ($name:ident, $std:ty, $t:ty) => {
            #[derive(Default)]
            pub struct $name($std);
            impl $name {
                pub const fn new(v: $t) -> Self {
                    Self(<$std>::new(v))
                }
                pub fn load(&self, o: Ordering) -> $t {
                    sched();
                    self.0.load(o)
                }
                pub fn store(&self, v: $t, o: Ordering) {
                    sched();
                    self.0.store(v, o)
                }
                pub fn swap(&self, v: $t, o: Ordering) -> $t {
                    sched();
                    self.0.swap(v, o)
                }
                pub fn fetch_add(&self, v: $t, o: Ordering) -> $t {
                    sched();
                    self.0.fetch_add(v, o)
                }
                pub fn fetch_sub(&self, v: $t, o: Ordering) -> $t {
                    sched();
                    self.0.fetch_sub(v, o)
                }
                pub fn fetch_max(&self, v: $t, o: Ordering) -> $t {
                    sched();
                    self.0.fetch_max(v, o)
                }
                pub fn fetch_min(&self, v: $t, o: Ordering) -> $t {
                    sched();
                    self.0.fetch_min(v, o)
                }
                pub fn compare_exchange(&self, c: $t, n: $t, s: Ordering, f: Ordering) -> Result<$t, $t> {
                    sched();
                    self.0.compare_exchange(c, n, s, f)
                }
                pub fn into_inner(self) -> $t {
                    self.0.into_inner()
                }
                pub fn get_mut(&mut self) -> &mut $t {
                    self.0.get_mut()
                }
            }
            impl std::fmt::Debug for $name {
                fn fmt(&self, f: &mut std::fmt::Formatter<'_>) -> std::fmt::Result {
                    self.0.fmt(f)
                }
            }
            impl From<$t> for $name {
                fn from(v: $t) -> Self {
                    Self::new(v)
                }
            }
        };
    }
    int_atomic!(AtomicUsize, std::sync::atomic::AtomicUsize, usize);
    int_atomic!(AtomicU64, std::sync::atomic::AtomicU64, u64);
    int_atomic!(AtomicI64, std::sync::atomic::AtomicI64, i64);
    int_atomic!(AtomicU32, std::sync::atomic::AtomicU32, u32);

    #[derive(Default)]
    pub struct AtomicBool(std::sync::atomic::AtomicBool);
    impl AtomicBool {
        pub const fn new(v: bool) -> Self {
            Self(std::sync::atomic::AtomicBool::new(v))
        }
        pub fn load(&self, o: Ordering) -> bool {
            sched();
            self.0.load(o)
        }
        pub fn store(&self, v: bool, o: Ordering) {
            sched();
            self.0.store(v, o)
        }
        pub fn swap(&self, v: bool, o: Ordering) -> bool {
            sched();
            self.0.swap(v, o)
        }
        pub fn fetch_or(&self, v: bool, o: Ordering) -> bool {
            sched();
            self.0.fetch_or(v, o)
        }
        pub fn fetch_and(&self, v: bool, o: Ordering) -> bool {
            sched();
            self.0.fetch_and(v, o)
        }
        pub fn compare_exchange(&self, c: bool, n: bool, s: Ordering, f: Ordering) -> Result<bool, bool> {
            sched();
            self.0.compare_exchange(c, n, s, f)
        }
        pub fn get_mut(&mut self) -> &mut bool {
            self.0.get_mut()
        }
        pub fn into_inner(self) -> bool {
            self.0.into_inner()
        }
    }
    impl std::fmt::Debug for AtomicBool {
        fn fmt(&self, f: &mut std::fmt::Formatter<'_>) -> std::fmt::Result {
            self.0.fmt(f)
        }
    }
    impl From<bool> for AtomicBool {
        fn from(v: bool) -> Self {
            Self::new(v)
        }
    }
}
