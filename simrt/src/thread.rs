//! std::thread look-alike: coroutines under the simulator's scheduler.
//!
//! A panic in a spawned thread has std semantics: it is caught at the thread's root, the thread
//! ends, `join` reports `Err`, everything else keeps running. The panic is recorded in the run
//! context (role = spawn site) for the oracles.

use crate::core;
use std::panic::Location;
use std::sync::{Arc, Mutex as StdMutex};
use std::time::Duration;

pub const STACK_SIZE: usize = 1 << 21;

pub struct JoinHandle<T> {
    task: usize,
    result: Arc<StdMutex<Option<std::thread::Result<T>>>>,
    done: Arc<StdMutex<(bool, Option<usize>)>>,
}

unsafe impl<T> Send for JoinHandle<T> {}
unsafe impl<T> Sync for JoinHandle<T> {}

impl<T> JoinHandle<T> {
    pub fn join(self) -> std::thread::Result<T> {
        core::sched();
        loop {
            {
                let mut d = self.done.lock().unwrap();
                if d.0 || core::exec_over() {
                    break;
                }
                d.1 = Some(core::me());
            }
            core::park_on("join");
        }
        match self.result.lock().unwrap().take() {
            Some(r) => r,
            None => Err(Box::new("simrt: joined thread did not finish (execution over)")),
        }
    }
    pub fn is_finished(&self) -> bool {
        self.done.lock().unwrap().0
    }
    pub fn task_id(&self) -> usize {
        self.task
    }
}

fn spawn_inner<F, T>(f: F, role: String, db_thread: bool) -> JoinHandle<T>
where
    F: FnOnce() -> T + Send + 'static,
    T: Send + 'static,
{
    core::sched();
    let result: Arc<StdMutex<Option<std::thread::Result<T>>>> = Arc::new(StdMutex::new(None));
    let done = Arc::new(StdMutex::new((false, None::<usize>)));
    let r2 = result.clone();
    let d2 = done.clone();
    let role2 = role.clone();
    let group = core::with_ctx(|c| {
        let g = c.groups.get(&core::me()).copied().unwrap_or(0);
        if db_thread {
            c.live_db_threads += 1;
            c.spawned_db_threads += 1;
            *c.live_by_group.entry(g).or_insert(0) += 1;
        }
        g
    });
    let body: Box<dyn FnOnce() + 'static> = Box::new(move || {
        core::detach_current();
        let me = core::me();
        core::with_ctx(|c| {
            c.roles.insert(me, role2.clone());
            c.groups.insert(me, group);
        });
        core::log("thread_start", || role2.clone());
        let r = std::panic::catch_unwind(std::panic::AssertUnwindSafe(f));
        if let Err(p) = r {
            if core::in_cleanup() {
                // forced unwind of an unfinished coroutine at the end of the execution: pass it on
                std::panic::resume_unwind(p);
            }
            core::record_panic(me, &role2);
            *r2.lock().unwrap() = Some(Err(p));
        } else {
            *r2.lock().unwrap() = Some(r);
        }
        core::log("thread_exit", || role2.clone());
        let (joiner, quiesce) = {
            let mut d = d2.lock().unwrap();
            d.0 = true;
            let j = d.1.take();
            let q = if db_thread {
                core::try_with_ctx(|c| {
                    c.live_db_threads -= 1;
                    if let Some(n) = c.live_by_group.get_mut(&group) {
                        *n -= 1;
                    }
                    // waiters re-check their own group's count
                    std::mem::take(&mut c.quiesce_waiters)
                })
                .unwrap_or_default()
            } else {
                Vec::new()
            };
            (j, q)
        };
        if let Some(j) = joiner {
            core::unpark(j);
        }
        for q in quiesce {
            core::unpark(q);
        }
    });
    let caller = Location::caller();
    let tid = shuttle_engine::runtime::execution::ExecutionState::spawn_thread(
        Box::new(move || {
            body();
        }),
        STACK_SIZE,
        Some(role),
        None,
        caller,
    );
    JoinHandle { task: usize::from(tid), result, done }
}

/// Spawn a database thread (this is what `std::thread::spawn` resolves to inside LocustDB).
#[track_caller]
pub fn spawn<F, T>(f: F) -> JoinHandle<T>
where
    F: FnOnce() -> T + Send + 'static,
    T: Send + 'static,
{
    let loc = Location::caller();
    let file = loc.file().rsplit('/').next().unwrap_or("?");
    spawn_inner(f, format!("db:{}:{}", file, loc.line()), true)
}

/// Spawn a harness thread (clients, timer). Not counted as a database thread.
pub fn spawn_harness<F, T>(role: &str, f: F) -> JoinHandle<T>
where
    F: FnOnce() -> T + Send + 'static,
    T: Send + 'static,
{
    spawn_inner(f, format!("h:{role}"), false)
}

/// Spawn a pool worker on behalf of the database.
pub fn spawn_pool_worker<F>(role: String, f: F) -> JoinHandle<()>
where
    F: FnOnce() + Send + 'static,
{
    spawn_inner(f, role, true)
}

pub fn sleep(d: Duration) {
    crate::time::sleep(d)
}

pub fn yield_now() {
    core::yield_now()
}

pub fn live_db_threads() -> usize {
    core::with_ctx(|c| c.live_db_threads)
}

/// Tag the calling thread: database threads spawned (transitively) from it belong to `group`.
pub fn set_current_group(group: u32) {
    let me = core::me();
    core::with_ctx(|c| {
        c.groups.insert(me, group);
    });
}

/// Wait until every database thread of `group` (one database instance) has exited; returns true
/// then. Returns false if instead the instance became *inert*: some of its threads are left, but
/// every one of them is blocked for good (nothing runnable, no timer pending) — the state a process
/// is in when `drop(LocustDB)` has returned while e.g. a background flush waits for a worker that has
/// already exited. There is deliberately no timeout: simulated time may run ahead of the work of
/// runnable threads, so a timeout would encode timing.
pub fn wait_db_quiescent(group: u32) -> bool {
    use std::sync::atomic::Ordering;
    core::sched();
    let me = core::me();
    core::QUIESCE_INERT.store(false, Ordering::SeqCst);
    core::QUIESCE_POLLER.store(me, Ordering::SeqCst);
    let clean = loop {
        let live = core::with_ctx(|c| c.live_by_group.get(&group).copied().unwrap_or(0));
        if live == 0 || core::exec_over() {
            break true;
        }
        if core::QUIESCE_INERT.load(Ordering::SeqCst) {
            break false;
        }
        core::yield_now();
    };
    core::QUIESCE_POLLER.store(usize::MAX, Ordering::SeqCst);
    clean
}
