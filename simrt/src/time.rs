//! Simulated clock: a discrete-event timer queue. `now` only moves when the timer coroutine
//! fires the earliest pending timer and jumps the clock to its deadline.

use crate::core::{self, sched, unpark};
use std::sync::atomic::{AtomicU64, Ordering};
use std::sync::Mutex as StdMutex;
use std::time::Duration;

static NOW: AtomicU64 = AtomicU64::new(0);
static NEXT_ID: AtomicU64 = AtomicU64::new(0);
pub static FIRED: AtomicU64 = AtomicU64::new(0);
// (deadline, id, task)
static TIMERS: StdMutex<Vec<(u64, u64, usize)>> = StdMutex::new(Vec::new());
static TIMER_IDLE_WAITER: StdMutex<Option<usize>> = StdMutex::new(None);

pub const EPOCH_SECS: u64 = 1_700_000_000;

pub fn reset() {
    NOW.store(0, Ordering::SeqCst);
    NEXT_ID.store(0, Ordering::SeqCst);
    FIRED.store(0, Ordering::SeqCst);
    TIMERS.lock().unwrap().clear();
    *TIMER_IDLE_WAITER.lock().unwrap() = None;
}

pub fn now_ns() -> u64 {
    NOW.load(Ordering::SeqCst)
}

pub fn pending_timers() -> usize {
    TIMERS.lock().unwrap().len()
}

pub fn register_timer(deadline: u64, task: usize) -> u64 {
    let id = NEXT_ID.fetch_add(1, Ordering::SeqCst);
    TIMERS.lock().unwrap().push((deadline, id, task));
    // wake the timer coroutine if it idles because there was nothing to fire
    let w = TIMER_IDLE_WAITER.lock().unwrap().take();
    if let Some(w) = w {
        unpark(w);
    }
    id
}

pub fn cancel_timer(id: u64) {
    TIMERS.lock().unwrap().retain(|t| t.1 != id);
}

/// Fire the earliest timer: jump the clock to its deadline and wake its owner.
/// Returns false if no timer is pending.
pub fn fire_next() -> bool {
    let t = {
        let mut ts = TIMERS.lock().unwrap();
        let best = ts.iter().enumerate().min_by_key(|(_, t)| (t.0, t.1)).map(|(i, _)| i);
        best.map(|i| ts.swap_remove(i))
    };
    match t {
        None => false,
        Some((deadline, _id, task)) => {
            if deadline > now_ns() {
                NOW.store(deadline, Ordering::SeqCst);
            }
            FIRED.fetch_add(1, Ordering::SeqCst);
            core::log("timer", || format!("fire task={task} t={deadline}"));
            unpark(task);
            true
        }
    }
}

/// Body of the timer coroutine (spawned by the harness, detached). Which moment it runs at is the
/// scheduler's decision: normally only when nothing else can run (classic discrete-event
/// simulation), with a seeded probability also while other threads are runnable (a timer firing
/// "early" relative to the work of others, i.e. slow or stalled threads).
pub fn timer_loop(stop: &std::sync::atomic::AtomicBool) {
    core::TIMER_TASK.store(core::me(), Ordering::SeqCst);
    loop {
        if stop.load(Ordering::SeqCst) || core::exec_over() {
            break;
        }
        // Always runnable: the scheduler picks this coroutine when nothing else can run (or, with
        // a seeded probability, earlier). If it is picked while no timer is pending and nothing
        // else is runnable, the scheduler itself declares the deadlock.
        fire_next();
        core::yield_now();
    }
    core::TIMER_TASK.store(usize::MAX, Ordering::SeqCst);
}

/// Wake the timer coroutine so it can observe its stop flag.
pub fn kick_timer() {
    let w = TIMER_IDLE_WAITER.lock().unwrap().take();
    if let Some(w) = w {
        unpark(w);
    }
}

pub fn sleep(d: Duration) {
    sched();
    if core::exec_over() {
        return;
    }
    let deadline = now_ns().saturating_add(d.as_nanos() as u64);
    let me = core::me();
    let id = register_timer(deadline, me);
    while now_ns() < deadline && !core::exec_over() {
        core::park_on("sleep");
    }
    cancel_timer(id);
}

#[derive(Clone, Copy, Debug, PartialEq, Eq, PartialOrd, Ord, Hash)]
pub struct Instant(u64);

impl Instant {
    pub fn now() -> Instant {
        Instant(now_ns())
    }
    pub fn elapsed(&self) -> Duration {
        Duration::from_nanos(now_ns().saturating_sub(self.0))
    }
    pub fn duration_since(&self, earlier: Instant) -> Duration {
        Duration::from_nanos(self.0.saturating_sub(earlier.0))
    }
}
impl std::ops::Sub<Duration> for Instant {
    type Output = Instant;
    fn sub(self, d: Duration) -> Instant {
        Instant(self.0.saturating_sub(d.as_nanos() as u64))
    }
}
impl std::ops::Add<Duration> for Instant {
    type Output = Instant;
    fn add(self, d: Duration) -> Instant {
        Instant(self.0.saturating_add(d.as_nanos() as u64))
    }
}
impl std::ops::Sub<Instant> for Instant {
    type Output = Duration;
    fn sub(self, o: Instant) -> Duration {
        Duration::from_nanos(self.0.saturating_sub(o.0))
    }
}

/// Wall clock: a fixed epoch plus simulated time.
#[derive(Clone, Copy, Debug, PartialEq, Eq, PartialOrd, Ord)]
pub struct SystemTime(u64);
pub const UNIX_EPOCH: SystemTime = SystemTime(0);

#[derive(Debug)]
pub struct SystemTimeError;

impl SystemTime {
    pub fn now() -> SystemTime {
        SystemTime(EPOCH_SECS * 1_000_000_000 + now_ns())
    }
    pub fn duration_since(&self, earlier: SystemTime) -> Result<Duration, SystemTimeError> {
        if self.0 >= earlier.0 {
            Ok(Duration::from_nanos(self.0 - earlier.0))
        } else {
            Err(SystemTimeError)
        }
    }
}
