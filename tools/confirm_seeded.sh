#!/bin/bash
# confirm_seeded.sh <worktree> <name>: confirm a seeded change independently:
#  (1) builds, (2) the repository's 124 tests pass with it, (3) its demo fails with it, (4) passes without.
# Writes /verif/seeded/<name>/{patch.diff,demo files,meta.json,confirm.log}
set -u
WT="$1"; NAME="$2"
OUT=/verif/seeded/$NAME
mkdir -p "$OUT"
cp "$WT"/seeded/* "$OUT"/ 2>/dev/null
cd "$WT" || exit 2
LOG="$OUT/confirm.log"
: > "$LOG"
echo "== worktree $WT at $(git rev-parse --short HEAD) + patch" >> "$LOG"
git diff --stat -- src locustdb-* >> "$LOG"
echo "== cargo build --offline --lib" >> "$LOG"
cargo build --offline --lib >> "$LOG" 2>&1 && echo "BUILD OK" >> "$LOG" || echo "BUILD FAILED" >> "$LOG"
echo "== existing suite with the change (demo test excluded)" >> "$LOG"
# (own network namespace: tests/ingestion_test.rs binds fixed loopback ports)
unshare -n sh -c 'ip link set lo up; timeout 2400 cargo test --workspace --offline --no-fail-fast --lib --test ingestion_test --test query_tests 2>&1' | grep -E "^test result|FAILED|failed" >> "$LOG"
echo "== demo with the change (must fail)" >> "$LOG"
timeout 1200 cargo test --offline --test seeded_demo 2>&1 | grep -E "^test result|panicked|FAILED" | head -5 >> "$LOG"
echo "== demo without the change (must pass)" >> "$LOG"
git diff -- src locustdb-* > /tmp/confirm-$NAME.diff
git apply -R /tmp/confirm-$NAME.diff
timeout 1200 cargo test --offline --test seeded_demo 2>&1 | grep -E "^test result|panicked|FAILED" | head -5 >> "$LOG"
git apply /tmp/confirm-$NAME.diff
rm -f /tmp/confirm-$NAME.diff
echo "== done" >> "$LOG"
