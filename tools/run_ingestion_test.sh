#!/bin/bash
# tests/ingestion_test.rs binds fixed loopback ports (8888-8895): wait until nobody else holds them.
cd "${1:-/repo}" || exit 2
for attempt in 1 2 3 4 5 6; do
  while ss -ltn | grep -qE ':(888[89]|889[0-5])\b'; do sleep 5; done
  out=$(timeout 900 cargo test --offline --test ingestion_test 2>&1)
  if echo "$out" | grep -q "AddrInUse"; then sleep 20; continue; fi
  echo "$out" | grep -E "^test result|FAILED|panicked" | head
  exit 0
done
echo "could not get the ports"; exit 2
