#!/bin/bash
# run_seeded.sh [name...]: apply each seeded change under /verif/seeded to /repo's working tree, run the
# quick check of its property (and of the extra properties listed in seeded/<name>/also), record what
# the check reported in seeded/<name>/detection.txt, and restore /repo. Never commits anything.
set -u
cd "$(dirname "$0")/.."
names=("$@"); [ ${#names[@]} -eq 0 ] && names=($(ls seeded | grep -v README))
if [ -n "$(git -C /repo status --porcelain)" ]; then echo "/repo working tree is not clean"; exit 2; fi
for name in "${names[@]}"; do
  d=seeded/$name; [ -f $d/patch.diff ] || continue
  prop=$(python3 -c "import json,sys;print(json.load(open('$d/meta.json'))['property'])")
  props="$prop $(cat $d/also 2>/dev/null)"
  if ! git -C /repo apply --check $PWD/$d/patch.diff 2>/dev/null; then echo "$name: patch no longer applies" | tee $d/detection.txt; continue; fi
  git -C /repo apply $PWD/$d/patch.diff
  : > $d/detection.txt
  for p in $props; do
    out=$(./check $p quick 2>&1); rc=$?
    {
      echo "== ./check $p quick on /repo $(git -C /repo rev-parse --short HEAD) + $name: exit $rc"
      echo "$out" | grep -a "^violation class\|^VIOLATION\|runs (" | cut -c1-300
    } >> $d/detection.txt
    f=$(echo "$out" | grep -a "^VIOLATION" | head -1 | sed 's/.*replay=//')
    [ -n "$f" ] && [ -f "$f" ] && cp "$f" $d/detected_replay_$p.json
  done
  git -C /repo checkout -- .
  echo "$name: $(grep -c '^VIOLATION' $d/detection.txt) VIOLATION line(s)"
done
git -C /repo status --porcelain
