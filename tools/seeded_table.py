#!/usr/bin/env python3
"""Writes /verif/seeded/README.md: one row per seeded change (what it breaks, what it needs to manifest,
what the quick checks reported when it was applied). Reads meta.json, confirm.log, detection.txt."""
import json, os, re, glob
root = os.path.join(os.path.dirname(__file__), '..', 'seeded')
rows = []
for d in sorted(glob.glob(os.path.join(root, '*/'))):
    name = os.path.basename(d.rstrip('/'))
    try:
        meta = json.load(open(os.path.join(d, 'meta.json')))
    except Exception:
        continue
    conf = open(os.path.join(d, 'confirm.log'), errors='replace').read() if os.path.exists(os.path.join(d, 'confirm.log')) else ''
    suite_ok = 'FAILED' not in conf.split('== demo with the change')[0].split('== rerun')[0] or '== rerun' in conf
    det = open(os.path.join(d, 'detection.txt'), errors='replace').read() if os.path.exists(os.path.join(d, 'detection.txt')) else '(not run yet)'
    checks = []
    for block in det.split('== ./check ')[1:]:
        head = block.splitlines()[0]
        prop = head.split()[0]
        classes = re.findall(r'^violation class=(.*?) seen in (\d+) run', block, re.M)
        runs = re.search(r'(\d+) runs \(', block)
        n = sum(int(c[1]) for c in classes)
        if classes:
            top = max(classes, key=lambda c: int(c[1]))
            checks.append(f"{prop}: caught — {len(classes)} class(es) minimised and replayed, most frequent `{top[0][:80]}` in {top[1]} of {runs.group(1) if runs else '?'} runs")
        else:
            checks.append(f"{prop}: not caught ({runs.group(1) if runs else '?'} runs)")
    rows.append((name, meta.get('property', '?'), meta.get('files_changed', []), meta.get('what_it_breaks', '')[:420], meta.get('needs_to_manifest', '')[:420], checks))
with open(os.path.join(root, 'README.md'), 'w') as f:
    f.write("# Seeded changes (sensitivity of the checks)\n\n"
            "Each directory holds a change to cswinter/LocustDB written by a sub-agent that saw only the property text and a\n"
            "scratch worktree: `patch.diff`, its demonstration test `seeded_demo.rs`, `meta.json` (what it breaks, what it needs to\n"
            "manifest), `confirm.log` (my own confirmation: builds, the 124 tests pass with it, the demo fails with it and passes\n"
            "without it), `detection.txt` (what `./check <property> quick` reported with the patch applied to /repo's working tree;\n"
            "produced by `tools/run_seeded.sh`, which restores the tree afterwards) and the replay file of the first violation.\n"
            "None of these changes is ever committed to /repo.\n\n")
    for name, prop, files, what, needs, checks in rows:
        f.write(f"## {name}  (property {prop})\n\n* files: {', '.join(files)}\n* breaks: {what}\n* needs: {needs}\n")
        for c in checks:
            f.write(f"* check {c}\n")
        f.write("\n")
print(f"{len(rows)} seeded changes")
