#!/usr/bin/env python3
import json, sys, struct
def cell(c):
    if c == 'N': return 'NULL'
    if 'I' in c: return str(c['I'])
    if 'F' in c: return repr(struct.unpack('<d', struct.pack('<Q', c['F']))[0])+'f'
    if 'S' in c:
        s=c['S']
        return repr(s if len(s)<40 else s[:12]+'…(%dB)'%len(s.encode()))
def show_op(op, ind='  '):
    if isinstance(op, dict) and 'Ingest' in op:
        rq=op['Ingest']
        print(f"{ind}INGEST req={rq['id']} path={rq['path']}")
        for t in rq['tables']:
            print(f"{ind}  table {t['table']!r} rows={t['rows']}")
            for c in t['cols']:
                print(f"{ind}    {c['name']!r:12} {c['repr']:10} [{', '.join(cell(x) for x in c['cells'])}]")
    elif isinstance(op, dict) and 'Concurrent' in op:
        for cl in op['Concurrent']:
            print(f"{ind}CLIENT {cl['name']}")
            for co in cl['ops']:
                print(f"{ind}  at={co['at']}")
                show_op(co['op'], ind+'    ')
    elif isinstance(op, dict) and 'Query' in op:
        print(f"{ind}QUERY {op['Query']['sql']}")
    else:
        print(f"{ind}{json.dumps(op)[:300]}")
for f in sys.argv[1:]:
    r=json.load(open(f))
    print('==', f, '\n   class:', r['class'], '\n   detail:', r['detail'][:700])
    p=r['plan']
    d={'on_disk': True,'threads': 2,'read_threads': 2,'io_threads': 1,'wal_threads': 1,'batch_size': 1024,'mem_lz4': True,'max_partition_size_bytes': 8388608,'partition_combine_factor': 4,'max_wal_size_bytes': 67108864,'max_wal_files': 1000,'mem_size_limit_tables': 8589934592}
    print('   non-default opts:', {k:v for k,v in p['opts'].items() if d.get(k)!=v}, ' sched kind', p['sched']['kind'], 'extras', p['extras'], 'knobs', p['knobs'])
    for op in p['ops']: show_op(op)
